package main

// C02 (structural part): conformance of the encoders' property sites with the
// MQTT v5.0 property table (typed from the specification, section 2.2.2.2,
// Table 2-4 - DESIGN appendix B.3), decided on the SSA of the real code:
// identifier constants have the specified numbers, every fillProp site of a
// packet uses an identifier allowed for that packet with the specified wire
// type, and no identifier is written twice by straight-line code.

import (
	"fmt"
	"go/constant"
	"go/types"
	"sort"
	"strings"

	"golang.org/x/tools/go/ssa"
)

type mqttProp struct {
	id      int64
	name    string // name of the library's constant
	wire    string // byte, u16, u32, vbi, str, bin, pair
	allowed []string
}

// MQTT v5.0 Table 2-4. W = will properties.
var mqttProps = []mqttProp{
	{0x01, "PayloadFormatIndicator", "byte", []string{"PUBLISH", "W"}},
	{0x02, "MessageExpiryInterval", "u32", []string{"PUBLISH", "W"}},
	{0x03, "ContentType", "str", []string{"PUBLISH", "W"}},
	{0x08, "ResponseTopic", "str", []string{"PUBLISH", "W"}},
	{0x09, "CorrelationData", "bin", []string{"PUBLISH", "W"}},
	{0x0b, "SubscriptionID", "vbi", []string{"PUBLISH", "SUBSCRIBE"}},
	{0x11, "SessionExpiryInterval", "u32", []string{"CONNECT", "CONNACK", "DISCONNECT"}},
	{0x12, "AssignedClientID", "str", []string{"CONNACK"}},
	{0x13, "ServerKeepAlive", "u16", []string{"CONNACK"}},
	{0x15, "AuthMethod", "str", []string{"CONNECT", "CONNACK", "AUTH"}},
	{0x16, "AuthData", "bin", []string{"CONNECT", "CONNACK", "AUTH"}},
	{0x17, "RequestProblemInfo", "byte", []string{"CONNECT"}},
	{0x18, "WillDelayInterval", "u32", []string{"W"}},
	{0x19, "RequestResponseInfo", "byte", []string{"CONNECT"}},
	{0x1a, "ResponseInformation", "str", []string{"CONNACK"}},
	{0x1c, "ServerReference", "str", []string{"CONNACK", "DISCONNECT"}},
	{0x1f, "ReasonString", "str", []string{"CONNACK", "PUBACK", "PUBREC", "PUBREL", "PUBCOMP", "SUBACK", "UNSUBACK", "DISCONNECT", "AUTH"}},
	{0x21, "ReceiveMax", "u16", []string{"CONNECT", "CONNACK"}},
	{0x22, "TopicAliasMax", "u16", []string{"CONNECT", "CONNACK"}},
	{0x23, "TopicAlias", "u16", []string{"PUBLISH"}},
	{0x24, "MaxQoS", "byte", []string{"CONNACK"}},
	{0x25, "RetainAvailable", "byte", []string{"CONNACK"}},
	{0x26, "UserProperty", "pair", []string{"CONNECT", "W", "CONNACK", "PUBLISH", "PUBACK", "PUBREC", "PUBREL", "PUBCOMP", "SUBSCRIBE", "SUBACK", "UNSUBSCRIBE", "UNSUBACK", "DISCONNECT", "AUTH"}},
	{0x27, "MaxPacketSize", "u32", []string{"CONNECT", "CONNACK"}},
	{0x28, "WildcardSubAvailable", "byte", []string{"CONNACK"}},
	{0x29, "SubIDsAvailable", "byte", []string{"CONNACK"}},
	{0x2a, "SharedSubAvailable", "byte", []string{"CONNACK"}},
}

// wire type of the library's encoder types
var wireOf = map[string]string{"mq.bits": "byte", "mq.wbool": "byte", "mq.wuint16": "u16", "mq.wuint32": "u32", "mq.vbint": "vbi",
	"mq.bindata": "strbin", "mq.UserProp": "pair"}

var packetOfType = map[string]string{"Connect": "CONNECT", "ConnAck": "CONNACK", "Publish": "PUBLISH", "PubAck": "PUBACK", "PubRec": "PUBREC",
	"PubRel": "PUBREL", "PubComp": "PUBCOMP", "Subscribe": "SUBSCRIBE", "SubAck": "SUBACK", "Unsubscribe": "UNSUBSCRIBE", "UnsubAck": "UNSUBACK",
	"Disconnect": "DISCONNECT", "Auth": "AUTH"}

// accessorOf: the accessor of the public API that reports the property (the same table as in gen_c03.py,
// written from the MQTT property names); W = will properties, reported through the will message (*Publish)
// except for the will delay interval.
var accessorOf = map[string]map[int64]string{
	"CONNECT": {0x11: "Connect.SessionExpiryInterval", 0x21: "Connect.ReceiveMax", 0x27: "Connect.MaxPacketSize", 0x22: "Connect.TopicAliasMax",
		0x19: "Connect.RequestResponseInfo", 0x17: "Connect.RequestProblemInfo", 0x15: "Connect.AuthMethod", 0x16: "Connect.AuthData"},
	"W": {0x18: "Connect.WillDelayInterval", 0x01: "Publish.PayloadFormat", 0x02: "Publish.MessageExpiryInterval", 0x03: "Publish.ContentType",
		0x08: "Publish.ResponseTopic", 0x09: "Publish.CorrelationData"},
	"CONNACK": {0x11: "ConnAck.SessionExpiryInterval", 0x21: "ConnAck.ReceiveMax", 0x24: "ConnAck.MaxQoS", 0x25: "ConnAck.RetainAvailable",
		0x27: "ConnAck.MaxPacketSize", 0x12: "ConnAck.AssignedClientID", 0x22: "ConnAck.TopicAliasMax", 0x1f: "ConnAck.ReasonString",
		0x28: "ConnAck.WildcardSubAvailable", 0x29: "ConnAck.SubIdentifiersAvailable", 0x2a: "ConnAck.SharedSubAvailable",
		0x13: "ConnAck.ServerKeepAlive", 0x1a: "ConnAck.ResponseInformation", 0x1c: "ConnAck.ServerReference", 0x15: "ConnAck.AuthMethod", 0x16: "ConnAck.AuthData"},
	"PUBLISH": {0x01: "Publish.PayloadFormat", 0x02: "Publish.MessageExpiryInterval", 0x23: "Publish.TopicAlias", 0x08: "Publish.ResponseTopic",
		0x09: "Publish.CorrelationData", 0x03: "Publish.ContentType"},
	"PUBACK": {0x1f: "PubAck.ReasonString"}, "PUBREC": {0x1f: "PubRec.ReasonString"}, "PUBREL": {0x1f: "PubRel.ReasonString"}, "PUBCOMP": {0x1f: "PubComp.ReasonString"},
	"SUBACK": {0x1f: "SubAck.ReasonString"}, "UNSUBACK": {0x1f: "UnsubAck.ReasonString"},
	"AUTH": {0x15: "Auth.AuthMethod", 0x16: "Auth.AuthData", 0x1f: "Auth.ReasonString"},
}

// fieldOf follows a value back to the struct field it was loaded from: (struct type name, field name).
func fieldOf(v ssa.Value) (string, string) {
	for i := 0; i < 6; i++ {
		switch x := v.(type) {
		case *ssa.UnOp:
			v = x.X
			continue
		case *ssa.ChangeType:
			v = x.X
			continue
		case *ssa.Convert:
			v = x.X
			continue
		case *ssa.FieldAddr:
			st := x.X.Type().Underlying().(*types.Pointer).Elem()
			name := ""
			if n, ok := types.Unalias(st).(*types.Named); ok {
				name = n.Obj().Name()
			}
			return name, st.Underlying().(*types.Struct).Field(x.Field).Name()
		}
		break
	}
	return "", ""
}

// accessorField: the single struct field an accessor's body reads ("" if it reads none or several).
func accessorField(fn *ssa.Function) (string, string) {
	tn, fname, n := "", "", 0
	for _, b := range fn.Blocks {
		for _, ins := range b.Instrs {
			if fa, ok := ins.(*ssa.FieldAddr); ok {
				t, f := fieldOf(fa)
				if t != tn || f != fname {
					n++
				}
				tn, fname = t, f
			}
		}
	}
	if n != 1 {
		return "", ""
	}
	return tn, fname
}

func scanPropertyTables(w *World, run *PropRun) {
	byID := map[int64]mqttProp{}
	for _, p := range mqttProps {
		byID[p.id] = p
	}
	report := func(ob string, ok bool, why string) {
		run.ExtraObs++
		if ok {
			run.ExtraOK++
			return
		}
		run.addScanViolation(ob, why)
	}
	// 1. identifier constants carry the numbers of the specification
	for _, p := range mqttProps {
		obj, _ := w.pkg.Pkg.Scope().Lookup(p.name).(*types.Const)
		ok := obj != nil
		why := "constant " + p.name + " not found"
		if ok {
			v, _ := constant.Int64Val(constant.ToInt(obj.Val()))
			ok = v == p.id
			why = fmt.Sprintf("constant %s is 0x%02x, MQTT v5.0 Table 2-4 says 0x%02x", p.name, v, p.id)
		}
		report("const."+p.name+"/scan/identifier-number", ok, why)
	}
	// 2. every property site of every encoder
	var names []string
	for n := range packetOfType {
		names = append(names, n)
	}
	sort.Strings(names)
	for _, tn := range names {
		pkt := packetOfType[tn]
		sites := map[string][]*ssa.Function{pkt: {w.funcs["(*"+tn+").properties"]}}
		if tn == "Connect" {
			sites["W"] = []*ssa.Function{w.funcs["(*Connect).payload$1"]}
		}
		for section, fns := range sites {
			seen := map[int64]int{}
			for _, fn := range fns {
				if fn == nil {
					continue
				}
				for _, b := range fn.Blocks {
					for _, ins := range b.Instrs {
						call, ok := ins.(*ssa.Call)
						if !ok {
							continue
						}
						var id *ssa.Const
						var recvT string
						if callee := call.Call.StaticCallee(); callee != nil && callee.Name() == "fillProp" && len(call.Call.Args) == 4 {
							id, _ = call.Call.Args[3].(*ssa.Const)
							recvT = typeStr(call.Call.Args[0].Type())
						} else if call.Call.IsInvoke() && call.Call.Method.Name() == "fillProp" && len(call.Call.Args) == 3 {
							// through a one-entry property map: the key is the identifier (checked below from the map literal)
							continue
						} else if callee := call.Call.StaticCallee(); callee != nil && callee.Name() == "properties" && strings.Contains(callee.String(), "UserProperties") {
							seen[0x26]++
							continue
						} else {
							continue
						}
						ob := fmt.Sprintf("(*%s).properties/scan/%s", tn, strings.ToLower(section))
						if id == nil {
							report(ob+"/constant-identifier", false, "fillProp with a non-constant identifier at "+w.fset.Position(call.Pos()).String())
							continue
						}
						v, _ := constant.Int64Val(constant.ToInt(id.Value))
						inLoop := false
						for _, l := range findLoops(fn) {
							if l.blocks[b] {
								inLoop = true
							}
						}
						if !inLoop {
							seen[v]++
						}
						sp, known := byID[v]
						okAllowed := false
						for _, a := range sp.allowed {
							if a == section {
								okAllowed = true
							}
						}
						report(fmt.Sprintf("%s/0x%02x/allowed", ob, v), known && okAllowed, fmt.Sprintf("identifier 0x%02x is not allowed in %s by MQTT v5.0 Table 2-4 (%s)", v, section, w.fset.Position(call.Pos())))
						wt := wireOf[recvT]
						okType := known && (wt == sp.wire || wt == "strbin" && (sp.wire == "str" || sp.wire == "bin"))
						report(fmt.Sprintf("%s/0x%02x/wire-type", ob, v), okType, fmt.Sprintf("identifier 0x%02x is written as %s (%s), the specification says %s (%s)", v, recvT, wt, sp.wire, w.fset.Position(call.Pos())))
						// the value written under this identifier is the field the accessor of that property reads
						if acc := accessorOf[section][v]; acc != "" {
							parts := strings.SplitN(acc, ".", 2)
							afn := w.funcs["(*"+parts[0]+")."+parts[1]]
							wt, wf := fieldOf(call.Call.Args[0])
							okBind, why := false, ""
							if afn == nil {
								why = "accessor " + acc + " not found"
							} else {
								at, af := accessorField(afn)
								okBind = at != "" && at == wt && af == wf
								why = fmt.Sprintf("identifier 0x%02x (%s) is written from field %s.%s, but the accessor %s() reads %s.%s (%s)", v, sp.name, wt, wf, acc, at, af, w.fset.Position(call.Pos()))
							}
							report(fmt.Sprintf("%s/0x%02x/accessor-binding", ob, v), okBind, why)
						}
					}
				}
			}
			for v, n := range seen {
				if v == 0x26 {
					continue
				}
				report(fmt.Sprintf("(*%s).properties/scan/%s/0x%02x/at-most-once", tn, strings.ToLower(section), v), n <= 1, fmt.Sprintf("identifier 0x%02x is written %d times by straight-line code", v, n))
			}
		}
	}
	// 3. identifiers in the decoders' (and map-driven encoders') property maps
	for _, tn := range names {
		pkt := packetOfType[tn]
		for _, fname := range []string{"(*" + tn + ").propertyMap", "(*" + tn + ").willPropertyMap"} {
			fn := w.funcs[fname]
			if fn == nil {
				continue
			}
			section := pkt
			if strings.Contains(fname, "will") {
				section = "W"
			}
			for _, b := range fn.Blocks {
				for _, ins := range b.Instrs {
					mu, ok := ins.(*ssa.MapUpdate)
					if !ok {
						continue
					}
					k, ok := mu.Key.(*ssa.Const)
					if !ok {
						continue
					}
					v, _ := constant.Int64Val(constant.ToInt(k.Value))
					sp, known := byID[v]
					okAllowed := false
					for _, a := range sp.allowed {
						if a == section {
							okAllowed = true
						}
					}
					report(fmt.Sprintf("%s/scan/0x%02x/allowed", fname, v), known && okAllowed, fmt.Sprintf("identifier 0x%02x in %s is not allowed in %s by MQTT v5.0 Table 2-4", v, fname, section))
				}
			}
		}
	}
	run.Extra = append(run.Extra, "property table conformance scan over the SSA of the encoders and property maps against MQTT v5.0 Table 2-4 (27 identifiers), including the binding of each written identifier to the field its accessor reads")
}
