package main

// C11 / C13: write-freedom of the read-only operations and absence of
// nondeterminism sources. Accessor contracts (assigns nothing) are generated
// from the method sets; two syntactic scans over the package's SSA complete
// the argument: no function stores to a package-level variable, and no
// function uses goroutines, select, channels, time or random sources.

import (
	"fmt"
	"go/types"
	"sort"
	"strings"

	"golang.org/x/tools/go/ssa"
)

func prepareC11(w *World) []string {
	var roots []string
	var tnames []string
	for _, name := range w.pkg.Pkg.Scope().Names() {
		if tn, ok := w.pkg.Pkg.Scope().Lookup(name).(*types.TypeName); ok && !tn.IsAlias() {
			if _, isStruct := tn.Type().Underlying().(*types.Struct); isStruct {
				tnames = append(tnames, name)
			}
		}
	}
	sort.Strings(tnames)
	for _, tname := range tnames {
		tn := w.pkg.Pkg.Scope().Lookup(tname).(*types.TypeName)
		ms := w.prog.MethodSets.MethodSet(types.NewPointer(tn.Type()))
		for i := 0; i < ms.Len(); i++ {
			fn := w.prog.MethodValue(ms.At(i))
			if fn == nil || fn.Synthetic != "" || !isAccessor(fn) && fn.Name() != "Filters" {
				continue
			}
			key := shortFuncName(fn.String())
			c := w.contracts[key]
			if c == nil {
				c = &Contract{Func: key, Loops: map[int]*LoopContract{}}
				w.contracts[key] = c
			}
			if len(c.Assigns) == 0 && !c.Pure {
				n, _ := parseSpec("$alloc")
				c.Assigns = append(c.Assigns, Clause{Expr: n, Src: "$alloc"})
				c.Inline = false
			}
			roots = append(roots, key)
		}
	}
	return roots
}

// scanPackage performs the syntactic checks; each is reported like an obligation.
func scanPackage(w *World, run *PropRun) {
	var fns []*ssa.Function
	for name, fn := range w.funcs {
		if fn.Pkg == w.pkg || (fn.Parent() != nil && fn.Parent().Pkg == w.pkg) {
			if fn.Name() == "init" || strings.HasPrefix(name, "spec") || strings.HasPrefix(name, "lemma") || fn.Synthetic != "" {
				continue
			}
			fns = append(fns, fn)
		}
	}
	sort.Slice(fns, func(i, j int) bool { return fns[i].String() < fns[j].String() })
	var fromGlobal func(v ssa.Value, depth int) bool
	fromGlobal = func(v ssa.Value, depth int) bool {
		if depth > 8 {
			return false
		}
		switch x := v.(type) {
		case *ssa.Global:
			return true
		case *ssa.FieldAddr:
			return fromGlobal(x.X, depth+1)
		case *ssa.IndexAddr:
			return fromGlobal(x.X, depth+1)
		case *ssa.Slice:
			return fromGlobal(x.X, depth+1)
		case *ssa.ChangeType:
			return fromGlobal(x.X, depth+1)
		}
		return false
	}
	for _, fn := range fns {
		name := shortFuncName(fn.String())
		okGlobals, okSources := true, true
		why := ""
		for _, b := range fn.Blocks {
			for _, ins := range b.Instrs {
				switch x := ins.(type) {
				case *ssa.Store:
					if fromGlobal(x.Addr, 0) {
						okGlobals = false
						why = "store to a package-level variable at " + w.fset.Position(x.Pos()).String()
					}
				case *ssa.MapUpdate:
					if u, ok := x.Map.(*ssa.UnOp); ok && fromGlobal(u.X, 0) {
						okGlobals = false
						why = "update of a package-level map at " + w.fset.Position(x.Pos()).String()
					}
				case *ssa.Go, *ssa.Select, *ssa.Send, *ssa.MakeChan:
					okSources = false
					why = fmt.Sprintf("%T at %s", ins, w.fset.Position(ins.Pos()))
				case *ssa.Call:
					if callee := x.Call.StaticCallee(); callee != nil && callee.Pkg != nil {
						p := callee.Pkg.Pkg.Path()
						if p == "math/rand" || p == "crypto/rand" || p == "time" && (callee.Name() == "Now" || callee.Name() == "Since") || p == "os" || p == "sync" || p == "sync/atomic" {
							okSources = false
							why = "call of " + callee.String()
						}
					}
				}
			}
		}
		run.ExtraObs += 2
		if okGlobals {
			run.ExtraOK++
		} else {
			run.addScanViolation(name+"/scan/no-global-write", why)
		}
		if okSources {
			run.ExtraOK++
		} else {
			run.addScanViolation(name+"/scan/no-nondeterminism-source", why)
		}
	}
	run.Extra = append(run.Extra, fmt.Sprintf("syntactic scans over %d functions of the package: no store to a package-level variable, no goroutine/select/channel/time/random/os/sync use", len(fns)))
}

func (run *PropRun) addScanViolation(ob, why string) {
	path := fmt.Sprintf("/verif/replays/%s/%s.txt", run.Spec.ID, sanitize(ob))
	writeFile(path, "obligation: "+ob+"\nkind: syntactic scan over go/ssa\nreason: "+why+"\n\nno-failing-input-found: the write-freedom / determinism argument of this property no longer applies to this function\n")
	run.Viol = append(run.Viol, violation{ob: ob, replay: path, noInput: true, desc: why})
}
