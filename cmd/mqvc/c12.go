package main

// C12: setter/accessor contracts generated from the method names of the
// public API (SetX pairs with X): after SetX(v) the accessor X() returns v and
// every other accessor returns what it returned before. The contracts do not
// look at field names or bodies, so a setter that stores into the wrong field
// fails them.

import (
	"fmt"
	"go/ast"
	"go/types"
	"sort"
	"strings"

	"golang.org/x/tools/go/ssa"
)

func isAccessor(fn *ssa.Function) bool {
	sig := fn.Signature
	if sig.Recv() == nil || !ast.IsExported(fn.Name()) || sig.Params().Len() != 0 || sig.Results().Len() != 1 {
		return false
	}
	switch fn.Name() {
	case "String", "WellFormed", "Error":
		return false
	}
	rt := sig.Results().At(0).Type()
	if sl, ok := rt.Underlying().(*types.Slice); ok {
		if b, ok := sl.Elem().Underlying().(*types.Basic); ok && b.Kind() == types.String {
			return false // a freshly allocated []string (Unsubscribe.Filters): compared in C01
		}
	}
	return true
}

// prepareC12 adds the generated contracts and returns the setter roots.
func prepareC12(w *World) []string {
	var roots []string
	var tnames []string
	for _, name := range w.pkg.Pkg.Scope().Names() {
		if tn, ok := w.pkg.Pkg.Scope().Lookup(name).(*types.TypeName); ok && !tn.IsAlias() {
			if _, isStruct := tn.Type().Underlying().(*types.Struct); isStruct && ast.IsExported(name) {
				tnames = append(tnames, name)
			}
		}
	}
	sort.Strings(tnames)
	for _, tname := range tnames {
		tn := w.pkg.Pkg.Scope().Lookup(tname).(*types.TypeName)
		ms := w.prog.MethodSets.MethodSet(types.NewPointer(tn.Type()))
		var accessors []string
		setters := map[string]*ssa.Function{}
		for i := 0; i < ms.Len(); i++ {
			fn := w.prog.MethodValue(ms.At(i))
			if fn == nil || fn.Synthetic != "" && !strings.Contains(fn.Synthetic, "wrapper") {
				continue
			}
			if isAccessor(fn) {
				accessors = append(accessors, fn.Name())
			}
		}
		sort.Strings(accessors)
		for i := 0; i < ms.Len(); i++ {
			fn := w.prog.MethodValue(ms.At(i))
			if fn == nil || !strings.HasPrefix(fn.Name(), "Set") || fn.Signature.Params().Len() != 1 || fn.Synthetic != "" {
				continue
			}
			x := strings.TrimPrefix(fn.Name(), "Set")
			for _, a := range accessors {
				if a == x {
					setters[fn.Name()] = fn
				}
			}
		}
		var snames []string
		for n := range setters {
			snames = append(snames, n)
		}
		sort.Strings(snames)
		for _, sn := range snames {
			fn := setters[sn]
			key := shortFuncName(fn.String())
			c := w.contracts[key]
			if c == nil {
				c = &Contract{Func: key, Loops: map[int]*LoopContract{}, Inline: true}
				w.contracts[key] = c
			}
			x := strings.TrimPrefix(sn, "Set")
			param := fn.Params[1].Name()
			addEnsures := func(src string) {
				n, err := parseSpec(src)
				if err != nil {
					fatal("C12 generated clause %q: %v", src, err)
				}
				c.Ensures = append(c.Ensures, Clause{Expr: n, Src: src, Tags: []string{"C12"}, Label: fmt.Sprintf("gen%d", len(c.Ensures))})
			}
			addEnsures(fmt.Sprintf("eqv(self.%s(), %s)", x, param))
			for _, a := range accessors {
				if a != x {
					addEnsures(fmt.Sprintf("eqv(self.%s(), old(self.%s()))", a, a))
				}
			}
			roots = append(roots, key)
		}
	}
	return roots
}
