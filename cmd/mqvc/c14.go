package main

// C14: ownership clauses generated from the struct definitions: after
// UnmarshalBinary every slice, string or pointer field of the packet is nil,
// freshly allocated by this call, or unchanged - it never refers to the input
// slice. That the input bytes themselves are not written is the heap frame
// obligation (frame/H_uint8) of the same functions.

import (
	"fmt"
	"go/types"
)

func prepareC14(w *World) []string {
	var roots []string
	for _, t := range append(append([]string{}, packetTypes...), "Undefined") {
		key := "(*" + t + ").UnmarshalBinary"
		fn := w.funcs[key]
		c := w.contracts[key]
		if fn == nil || c == nil {
			continue
		}
		st, ok := elemOf(fn.Params[0].Type()).Underlying().(*types.Struct)
		if !ok {
			continue
		}
		recv := fn.Params[0].Name()
		for i := 0; i < st.NumFields(); i++ {
			f := st.Field(i)
			var src string
			switch f.Type().Underlying().(type) {
			case *types.Slice:
				src = fmt.Sprintf("base(%s.%s) == 0 || fresh(%s.%s) || base(%s.%s) == old(base(%s.%s))", recv, f.Name(), recv, f.Name(), recv, f.Name(), recv, f.Name())
			case *types.Pointer:
				src = fmt.Sprintf("%s.%s == nil || fresh(%s.%s) || unchanged(%s.%s)", recv, f.Name(), recv, f.Name(), recv, f.Name())
			default:
				if isStringT(f.Type()) {
					src = fmt.Sprintf("base(%s.%s) == 0 || fresh(%s.%s) || unchanged(%s.%s)", recv, f.Name(), recv, f.Name(), recv, f.Name())
				}
			}
			if src == "" {
				continue
			}
			n, err := parseSpec(src)
			if err != nil {
				fatal("C14 generated clause %q: %v", src, err)
			}
			c.Ensures = append(c.Ensures, Clause{Expr: n, Src: src, Tags: []string{"C14"}, Label: "own-" + f.Name()})
			// the same fact is carried through the property loops
			c.GlobalInvs = append(c.GlobalInvs, Clause{Expr: n, Src: src, Tags: []string{"C14"}, RootScope: true})
		}
		roots = append(roots, key)
	}
	return roots
}
