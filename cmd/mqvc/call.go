package main

// Calls: builtins, static callees (contract / trusted model / inlining),
// closures and interface dispatch.

import (
	"fmt"
	"go/types"
	"sort"

	"golang.org/x/tools/go/ssa"
)

const maxInlineDepth = 16

func (fr *Frame) doCall(ins ssa.Instruction, c *ssa.CallCommon) *Val {
	vc := fr.vc
	var args []*Val
	for _, a := range c.Args {
		args = append(args, fr.get(a))
	}
	if c.IsInvoke() {
		recv := fr.get(c.Value)
		return fr.invoke(ins, recv, c.Value.Type(), c.Method, args)
	}
	switch v := c.Value.(type) {
	case *ssa.Builtin:
		return fr.builtin(ins, v, c, args)
	case *ssa.Function:
		return fr.callFunc(ins, v, args, nil)
	}
	fv := fr.get(c.Value)
	cands := fv.Fn
	if cands == nil {
		// unknown function value: any closure of this signature created so far
		sig := c.Value.Type().Underlying().(*types.Signature)
		cands = []int{0}
		for _, cl := range vc.closures {
			if types.Identical(cl.fn.Signature, sig) || sameSigIgnoringRecv(cl.fn.Signature, sig) {
				cands = append(cands, cl.id)
			}
		}
		var cs []string
		for _, id := range cands {
			cs = append(cs, eq(fv.L[0], intLit(int64(id))))
		}
		vc.oblige(fr, ins, "dyn-call", 0, or(cs...), "call of a function value that cannot be resolved")
	}
	var cases []dispatchCase
	for _, id := range cands {
		id := id
		cond := eq(fv.L[0], intLit(int64(id)))
		if id == 0 {
			save := fr.reach
			fr.reach = and(fr.reach, cond)
			vc.oblige(fr, ins, "nil-call", 0, tFalse, "call of nil function")
			fr.reach = save
			continue
		}
		cl := vc.closures[id-1]
		cases = append(cases, dispatchCase{cond, func() *Val { return fr.callFunc(ins, cl.fn, args, cl.binds) }})
	}
	return fr.dispatch(cases, callResultType(c))
}

func sameSigIgnoringRecv(a, b *types.Signature) bool {
	return types.Identical(types.NewSignatureType(nil, nil, nil, a.Params(), a.Results(), a.Variadic()),
		types.NewSignatureType(nil, nil, nil, b.Params(), b.Results(), b.Variadic()))
}

func callResultType(c *ssa.CallCommon) types.Type {
	res := c.Signature().Results()
	switch res.Len() {
	case 0:
		return nil
	case 1:
		return res.At(0).Type()
	}
	return res
}

type dispatchCase struct {
	cond string
	run  func() *Val
}

// dispatch runs the alternatives under their guards and merges the results.
func (fr *Frame) dispatch(cases []dispatchCase, rt types.Type) *Val {
	vc := fr.vc
	if len(cases) == 0 {
		fr.reach = tFalse
		if rt == nil {
			return nil
		}
		return fr.havoc(rt, "nocase")
	}
	if len(cases) == 1 && cases[0].cond == tTrue {
		return cases[0].run()
	}
	baseReach, baseSt := fr.reach, fr.st
	type outc struct {
		cond  string
		reach string
		st    *State
		res   *Val
	}
	var outs []outc
	for _, c := range cases {
		if c.cond == tFalse {
			continue
		}
		fr.reach = vc.define(fr.prefix+"_case", "Bool", and(baseReach, c.cond))
		fr.st = baseSt.clone()
		res := c.run()
		outs = append(outs, outc{c.cond, fr.reach, fr.st, res})
	}
	if len(outs) == 0 {
		fr.reach = tFalse
		fr.st = baseSt
		if rt == nil {
			return nil
		}
		return fr.havoc(rt, "nocase")
	}
	var cs []condState
	var reaches []string
	var res *Val
	for i := len(outs) - 1; i >= 0; i-- {
		o := outs[i]
		reaches = append(reaches, o.reach)
		if res == nil {
			res = o.res
		} else if o.res != nil {
			res = iteVal(vc, o.cond, o.res, res)
		}
	}
	for _, o := range outs {
		cs = append(cs, condState{o.cond, o.st})
	}
	fr.st = fr.mergeStates(cs)
	fr.reach = vc.define(fr.prefix+"_after", "Bool", or(reaches...))
	return res
}

// ---- interface method calls ----

func (fr *Frame) invoke(ins ssa.Instruction, recv *Val, it types.Type, m *types.Func, args []*Val) *Val {
	vc := fr.vc
	sig := m.Type().(*types.Signature)
	var rt types.Type
	switch sig.Results().Len() {
	case 0:
	case 1:
		rt = sig.Results().At(0).Type()
	default:
		rt = sig.Results()
	}
	cands := recv.Tags
	if cands == nil {
		if r, ok := fr.abstractInvoke(ins, recv, it, m, args, rt); ok {
			return r
		}
		cands = append([]int{0}, vc.w.implementers(it.Underlying().(*types.Interface))...)
		vc.notes = append(vc.notes, fmt.Sprintf("closed-world dispatch of %s.%s over package types (in %s)", typeStr(it), m.Name(), shortFuncName(fr.fn.String())))
	}
	var cases []dispatchCase
	sort.Ints(cands)
	for _, id := range cands {
		id := id
		cond := eq(recv.L[0], intLit(int64(id)))
		if id == 0 {
			save := fr.reach
			fr.reach = and(fr.reach, cond)
			vc.oblige(fr, ins, "nil-deref", 1, tFalse, "method call on nil interface")
			fr.reach = save
			continue
		}
		ct := vc.w.typeByID[id]
		sel := vc.w.prog.MethodSets.MethodSet(ct).Lookup(m.Pkg(), m.Name())
		if sel == nil {
			continue
		}
		fn := vc.w.prog.MethodValue(sel)
		if fn == nil {
			vc.unsupported(fr, "no method value for "+ct.String()+"."+m.Name())
			continue
		}
		payload := recv.L[1]
		if alt, ok := recv.Alts[id]; ok {
			payload = alt // only the values that can carry this dynamic type
		}
		if pt, ok := ct.Underlying().(*types.Pointer); ok {
			// Go's type safety: a pointer held in an interface points to a whole allocated object
			vc.assume(imp(and(fr.reach, cond), or(eq(payload, "0"), le(add(payload, intLit(int64(allocSlots(pt.Elem())))), fr.st.wm))))
		}
		cases = append(cases, dispatchCase{cond, func() *Val {
			var rv *Val
			if isPtrT(ct) {
				rv = &Val{T: ct, L: []string{payload}}
			} else {
				rv = fr.load(payload, ct)
			}
			return fr.callFunc(ins, fn, append([]*Val{rv}, args...), nil)
		}})
	}
	return fr.dispatch(cases, rt)
}

// ---- static callees ----

func (fr *Frame) callFunc(ins ssa.Instruction, fn *ssa.Function, args []*Val, binds []*Val) *Val {
	vc := fr.vc
	name := shortFuncName(fn.String())
	if c := vc.w.contracts[name]; c != nil && binds == nil && (vc.specDepth == 0 || !c.Inline) {
		if !c.Inline && !vc.w.forceInline[name] && (vc.w.unroll == 0 || c.Trusted || fn.Blocks == nil) {
			vc.used[name] = true
			return fr.applyContract(ins, fn, c, args)
		}
		fr.checkRequires(fn, c, args)
	}
	if m := externModels[fn.String()]; m != nil {
		vc.trusted[fn.String()] = true
		if vc.taint && vc.specDepth == 0 {
			fr.checkSinks(fn.String(), args)
		}
		return m(fr, ins, fn, args)
	}
	if fn.Blocks == nil || !vc.w.mayInline(fn) {
		vc.unsupported(fr, "call of external function without a model: "+fn.String())
		return fr.havocResult(fn)
	}
	return fr.inline(fn, args, binds, ins)
}

func (fr *Frame) havocResult(fn *ssa.Function) *Val {
	res := fn.Signature.Results()
	switch res.Len() {
	case 0:
		return nil
	case 1:
		return fr.havoc(res.At(0).Type(), "res")
	}
	return fr.havoc(res, "res")
}

func (fr *Frame) inline(fn *ssa.Function, args []*Val, binds []*Val, ins ssa.Instruction) *Val {
	vc := fr.vc
	if fr.depth >= maxInlineDepth {
		vc.unsupported(fr, "inlining depth exceeded at "+fn.String())
		return fr.havocResult(fn)
	}
	for p := fr; p != nil; p = p.parent {
		if p.fn == fn && vc.specDepth == 0 {
			vc.unsupported(fr, "recursive call of "+fn.String())
			return fr.havocResult(fn)
		}
	}
	vc.inlined[shortFuncName(fn.String())] = true
	nf := vc.newFrame(fn, fr)
	for i, p := range fn.Params {
		if i < len(args) {
			nf.vals[p] = args[i]
			nf.params[p.Name()] = args[i]
		}
	}
	for i, fv := range fn.FreeVars {
		if i < len(binds) {
			nf.vals[fv] = binds[i]
		}
	}
	nf.entry = fr.st.clone()
	nf.site = callSiteOrdinal(fr.fn, fn, ins)
	nf.iterPos = fr.iterPos
	e := &Edge{cond: fr.reach, st: fr.st}
	nf.execRegion(nil, fn.Blocks[0], []*Edge{e}, nil, false)
	if len(nf.rets) == 0 {
		fr.reach = tFalse
		return fr.havocResult(fn)
	}
	var cs []condState
	var conds []string
	var res *Val
	for i := len(nf.rets) - 1; i >= 0; i-- {
		r := nf.rets[i]
		if res == nil {
			res = r.res
		} else if r.res != nil {
			res = iteVal(vc, r.cond, r.res, res)
		}
	}
	for _, r := range nf.rets {
		cs = append(cs, condState{r.cond, r.st})
		conds = append(conds, r.cond)
	}
	fr.st = fr.mergeStates(cs)
	fr.reach = vc.define(fr.prefix+"_ret", "Bool", or(conds...))
	if c := vc.w.contracts[shortFuncName(fn.String())]; c != nil && len(c.Marks) > 0 && vc.specDepth == 0 {
		ord := callSiteOrdinal(fr.fn, fn, ins)
		scope := map[string]*Val{}
		saveSt, saveReach := nf.st, nf.reach
		nf.st, nf.reach = fr.st, fr.reach
		for _, m := range c.Marks {
			if !clauseActive(m.Tags, vc.w.prop) {
				continue
			}
			v := nf.evalInt(m.Expr, scope, fr.st, nf.entry)
			fr.st.ghost[fmt.Sprintf("%s_%d", m.Name, ord)] = vc.define("g_"+sanitize(m.Name), "Int", v)
		}
		nf.st, nf.reach = saveSt, saveReach
	}
	return res
}

// callSiteOrdinal: 1-based position (source order) of the call instruction
// among the calls of callee in caller.
func callSiteOrdinal(caller, callee *ssa.Function, ins ssa.Instruction) int {
	n := 1
	if ins == nil {
		return n
	}
	for _, b := range caller.Blocks {
		for _, i2 := range b.Instrs {
			ci, ok := i2.(ssa.CallInstruction)
			if !ok || i2 == ins {
				continue
			}
			if ci.Common().StaticCallee() == callee && i2.Pos() < ins.Pos() {
				n++
			}
		}
	}
	return n
}

// ---- builtins ----

func (fr *Frame) builtin(ins ssa.Instruction, b *ssa.Builtin, c *ssa.CallCommon, args []*Val) *Val {
	vc := fr.vc
	it := types.Typ[types.Int]
	switch b.Name() {
	case "len":
		x := args[0]
		switch {
		case isSliceT(x.T) || isStringT(x.T):
			return &Val{T: it, L: []string{x.L[1]}}
		case x.Map != nil && !x.Map.opaque:
			return &Val{T: it, L: []string{intLit(int64(len(x.Map.keys)))}}
		}
		if arr, ok := x.T.Underlying().(*types.Array); ok {
			return &Val{T: it, L: []string{intLit(arr.Len())}}
		}
		v := fr.havoc(it, "len")
		vc.assume(le("0", v.L[0]))
		return v
	case "cap":
		x := args[0]
		if isSliceT(x.T) {
			return &Val{T: it, L: []string{x.L[2]}}
		}
	case "append":
		return fr.appendBuiltin(ins, c, args)
	case "copy":
		dst, src := args[0], args[1]
		n := vc.define(fr.prefix+"_copyn", "Int", ite(le(dst.L[1], src.L[1]), dst.L[1], src.L[1]))
		fr.copyRange(elemOf(dst.T), dst.L[0], src.L[0], n)
		return &Val{T: it, L: []string{n}}
	case "print", "println":
		return nil
	case "ssa:wrapnilchk":
		fr.nilCheck(ins, args[0].L[0])
		return args[0]
	case "min", "max":
		if len(args) == 2 {
			if l, ok := numLeaf(args[0].T); ok && l.Kind != lkBV {
				c := le(args[0].L[0], args[1].L[0])
				if b.Name() == "max" {
					c = ge(args[0].L[0], args[1].L[0])
				}
				return &Val{T: args[0].T, L: []string{ite(c, args[0].L[0], args[1].L[0])}}
			}
		}
	}
	vc.unsupported(fr, "builtin "+b.Name())
	if rt := callResultType(c); rt != nil {
		return fr.havoc(rt, "builtin")
	}
	return nil
}

func (fr *Frame) appendBuiltin(ins ssa.Instruction, c *ssa.CallCommon, args []*Val) *Val {
	vc := fr.vc
	s, t := args[0], args[1]
	st := c.Args[0].Type()
	et := elemOf(st)
	es := intLit(int64(slots(et)))
	n := vc.define(fr.prefix+"_appn", "Int", add(s.L[1], t.L[1]))
	if tl, ok := parseIntLit(t.L[1]); ok && tl.Sign() == 0 {
		return s
	}
	inplace := vc.define(fr.prefix+"_inplace", "Bool", le(n, s.L[2]))
	newcap := vc.fresh(fr.prefix+"_newcap", "Int")
	vc.assume(and(le(n, newcap), le(newcap, maxCap)))
	nb := fr.alloc(et, newcap)
	dst := vc.define(fr.prefix+"_appbase", "Int", ite(inplace, s.L[0], nb))
	if sl, ok := parseIntLit(s.L[1]); !(ok && sl.Sign() == 0) {
		fr.copyRange(et, dst, s.L[0], s.L[1])
	}
	fr.copyRange(et, add(dst, mul(s.L[1], es)), t.L[0], t.L[1])
	fr.noteAlloc(mul(t.L[1], es)) // appended elements (amortised growth of the runtime is trusted)
	fr.st.ghost["$elems"] = vc.define("g_elems", "Int", add(fr.ghostGet("$elems"), t.L[1]))
	return &Val{T: st, L: []string{dst, n, ite(inplace, s.L[2], newcap)}}
}

// ---- contracts at call sites ----

func (fr *Frame) contractScope(fn *ssa.Function, args []*Val) map[string]*Val {
	scope := map[string]*Val{}
	for i, p := range fn.Params {
		if i < len(args) {
			scope[p.Name()] = args[i]
			if i == 0 && fn.Signature.Recv() != nil {
				scope["self"] = args[i]
			}
		}
	}
	return scope
}

func bindResults(scope map[string]*Val, res *Val) {
	if res == nil {
		return
	}
	if res.Tup != nil {
		for i, r := range res.Tup {
			scope[fmt.Sprintf("result%d", i)] = r
		}
		return
	}
	scope["result"] = res
	scope["result0"] = res
}

func (fr *Frame) checkRequires(fn *ssa.Function, c *Contract, args []*Val) {
	vc := fr.vc
	saveLets := vc.curLets
	vc.curLets = c.Lets
	defer func() { vc.curLets = saveLets }()
	name := shortFuncName(fn.String())
	scope := fr.contractScope(fn, args)
	for i, r := range c.Requires {
		if !clauseActive(r.Tags, vc.w.prop) {
			continue
		}
		t := fr.evalGoal(r.Expr, scope, fr.st, fr.st)
		vc.obligeNamed(fr, fmt.Sprintf("%s/call-pre/%s/%d", shortFuncName(fr.fn.String()), name, i), "call-pre", t, r.Tags, r.Src)
	}
}

func (fr *Frame) applyContract(ins ssa.Instruction, fn *ssa.Function, c *Contract, args []*Val) *Val {
	vc := fr.vc
	saveLets := vc.curLets
	defer func() { vc.curLets = saveLets }()
	scope := fr.contractScope(fn, args)
	old := fr.st.clone()
	fr.checkRequires(fn, c, args)
	vc.curLets = c.Lets
	// effects
	if !c.Pure {
		nw := vc.fresh(fr.prefix+"_wm", "Int")
		vc.assume(le(fr.st.wm, nw))
		fr.st.wm = nw
	}
	fr.havocAssigns(c.Assigns, scope, old)
	res := fr.havocResult(fn)
	bindResults(scope, res)
	for _, e := range c.Ensures {
		if !clauseActive(e.Tags, vc.w.prop) {
			continue
		}
		t := fr.evalBool(e.Expr, scope, fr.st, old)
		vc.assume(imp(fr.reach, t))
	}
	return res
}

// assignLoc is one location set named by an assigns clause.
type assignLoc struct {
	cell  bool
	addr  string
	t     types.Type // cell: type at addr
	lo    string     // range [lo, hi) of slots
	hi    string
	elemT types.Type
	cond  string // cell only: the location is assigned only if this holds ("" = always)
}

// assignLocs evaluates assigns clauses (in state old) to location sets.
func (fr *Frame) assignLocs(assigns []Clause, scope map[string]*Val, old *State) (locs []assignLoc, allHeap bool, ghosts []string) {
	vc := fr.vc
	for _, a := range assigns {
		n := a.Expr
		if n.Kind == "ident" && n.Name == "$heap" {
			allHeap = true
			continue
		}
		if n.Kind == "ident" && len(n.Name) > 0 && n.Name[0] == '$' {
			ghosts = append(ghosts, n.Name)
			continue
		}
		env := &evalEnv{fr: fr, scope: scope, st: old, old: old, bound: map[string]string{}}
		func() {
			defer func() {
				if r := recover(); r != nil {
					if e, isE := r.(evalError); isE {
						vc.unsupported(fr, "assigns: "+e.msg+" in `"+a.Src+"`")
						return
					}
					panic(r)
				}
			}()
			vc.specDepth++
			saveReach, saveSt := fr.reach, fr.st
			defer func() { vc.specDepth--; fr.reach, fr.st = saveReach, saveSt }()
			if n.Kind == "call" && n.Args[0].Kind == "ident" && (n.Args[0].Name == "elems" || n.Args[0].Name == "capelems") {
				x := env.eval(n.Args[1])
				if !isSliceT(x.T) {
					env.fail("%s(...) of a value that is not a slice (%v): the contract no longer fits the code", n.Args[0].Name, x.T)
				}
				et := elemOf(x.T)
				cnt := x.L[1]
				if n.Args[0].Name == "capelems" {
					cnt = x.L[2] // the whole backing array up to the capacity
				}
				locs = append(locs, assignLoc{lo: x.L[0], hi: add(x.L[0], mul(cnt, intLit(int64(slots(et))))), elemT: et})
				return
			}
			if n.Kind == "slice" {
				x := env.eval(n.Args[0])
				if !isSliceT(x.T) {
					env.fail("slice expression on a value that is not a slice (%v): the contract no longer fits the code", x.T)
				}
				lo, hi := "0", x.L[1]
				if n.Args[1] != nil {
					lo = env.intOf(env.eval(n.Args[1]))
				}
				if n.Args[2] != nil {
					hi = env.intOf(env.eval(n.Args[2]))
				}
				if x.L[1] == "0" {
					return // nothing can be written through an empty slice
				}
				lo = ite(lt(lo, "0"), "0", lo)
				hi = ite(gt(hi, x.L[1]), x.L[1], hi)
				et := elemOf(x.T)
				es := intLit(int64(slots(et)))
				lo = vc.define("alo", "Int", add(x.L[0], mul(lo, es)))
				hi = vc.define("ahi", "Int", add(x.L[0], mul(hi, es)))
				locs = append(locs, assignLoc{lo: lo, hi: hi, elemT: et})
				return
			}
			// *payload(x, *T): the pointee of an interface value, assigned only if x holds a *T
			if n.Kind == "unary" && n.Op == "*" && n.Args[0].Kind == "call" && n.Args[0].Args[0].Kind == "ident" && n.Args[0].Args[0].Name == "payload" {
				x := env.eval(n.Args[0].Args[1])
				pt := env.typeByName(n.Args[0].Args[2])
				id := vc.w.typeID(pt)
				if x.Tags != nil {
					found := false
					for _, tg := range x.Tags {
						if tg == id {
							found = true
						}
					}
					if !found {
						return
					}
				}
				c := eq(x.L[0], intLit(int64(id)))
				if c == tFalse {
					return
				}
				if c == tTrue {
					c = ""
				}
				payload := x.L[1]
				if alt, ok := x.Alts[id]; ok {
					payload = alt
				}
				locs = append(locs, assignLoc{cell: true, addr: payload, t: elemOf(pt), cond: c})
				return
			}
			addr, t := env.addrOf(n)
			locs = append(locs, assignLoc{cell: true, addr: addr, t: t})
		}()
	}
	return
}

// havocAssigns havocs the locations named by assigns clauses (evaluated in
// the pre-state).
func (fr *Frame) havocAssigns(assigns []Clause, scope map[string]*Val, old *State) {
	vc := fr.vc
	locs, allHeap, ghosts := fr.assignLocs(assigns, scope, old)
	if allHeap {
		var keys []string
		for k := range leafByKey {
			keys = append(keys, k)
		}
		sort.Strings(keys)
		for _, k := range keys {
			oldArr := vc.arr(fr.st, leafByKey[k])
			fr.st.heap[k] = vc.fresh(k, "(Array Int "+leafByKey[k].Sort+")")
			vc.logStore(k, "unknown!999999999", "")
			vc.staticFrame(k, fr.st.heap[k], oldArr)
			fr.st.epoch[k] = [2]string{fr.st.heap[k], fr.st.wm}
		}
		for _, g := range []string{"$alloc", "$elems"} {
			fr.st.ghost[g] = vc.fresh("g_"+sanitize(g), "Int")
		}
	}
	for _, g := range ghosts {
		fr.st.ghost[g] = vc.fresh("g_"+sanitize(g), "Int")
		if g == "$writes" { // everything the writer model records about the last Write
			for _, h := range []string{"$wbase", "$wlen", "$w0", "$wn", "$werr_t", "$werr_v"} {
				fr.st.ghost[h] = vc.fresh("g_"+sanitize(h), "Int")
			}
		}
	}
	if allHeap {
		return
	}
	for _, loc := range locs {
		if loc.cell {
			for _, l := range flatten(loc.t) {
				rememberLeaf(l)
				a := add(loc.addr, intLit(int64(l.Slot)))
				v := vc.fresh(fr.prefix+"_hv", l.Sort)
				if loc.cond != "" {
					v = ite(loc.cond, v, sel(vc.arr(fr.st, l), a))
				}
				vc.logStore(l.Key, a, "")
				vc.setArr(fr.st, l, store(vc.arr(fr.st, l), a, v))
			}
			save := fr.st
			nv := fr.load(loc.addr, loc.t)
			fr.st = save
			vc.assume(typeInv(loc.t, nv.L, fr.st.wm))
			continue
		}
		if loc.lo == loc.hi {
			continue
		}
		done := map[string]bool{}
		for _, l := range flatten(loc.elemT) {
			if done[l.Key] {
				continue
			}
			done[l.Key] = true
			rememberLeaf(l)
			oldArr := vc.arr(fr.st, l)
			vc.logStore(l.Key, loc.lo, sub(loc.hi, loc.lo))
			nw := vc.fresh(l.Key, "(Array Int "+l.Sort+")")
			lo2, hi2 := loc.lo, loc.hi
			vc.addAxiomArr(l.Key, nw, oldArr, fmt.Sprintf("(forall ((a Int)) (! (=> (not (and (<= %s a) (< a %s))) (= (select %s a) (select %s a))) :pattern ((select %s a))))",
				lo2, hi2, nw, oldArr, nw), func(idx string) (string, []string) {
				return imp(not(and(le(lo2, idx), lt(idx, hi2))), eq(sel(nw, idx), sel(oldArr, idx))), nil
			})
			fr.st.heap[l.Key] = nw
			if vc.taint && l.Key == "H_uint8" {
				// bytes written by a callee under contract may derive from secrets
				oldT := vc.arr(fr.st, taintLeaf)
				nt := vc.fresh("G_taint", "(Array Int Bool)")
				vc.addAxiomArr("G_taint", nt, oldT, fmt.Sprintf("(forall ((a Int)) (! (= (select %s a) (or (and (<= %s a) (< a %s)) (select %s a))) :pattern ((select %s a))))", nt, lo2, hi2, oldT, nt),
					func(idx string) (string, []string) {
						return eq(sel(nt, idx), or(and(le(lo2, idx), lt(idx, hi2)), sel(oldT, idx))), nil
					})
				fr.st.heap["G_taint"] = nt
			}
		}
	}
}

// checkSinks: no byte handed to an external function (formatting, writers) is secret.
func (fr *Frame) checkSinks(callee string, args []*Val) {
	vc := fr.vc
	var visit func(v *Val, depth int)
	check := func(base, ln string) {
		k := vc.fresh("sk_sink", "Int")
		for _, h := range vc.hyps {
			h(k)
		}
		a := add(base, k)
		vc.nsecret++
		vc.obligeNamed(fr, fmt.Sprintf("%s/secret-escape/%d", shortFuncName(fr.fn.String()), vc.nsecret), "secret-escape",
			imp(and(le("0", k), lt(k, ln)), not(vc.read(fr.st, taintLeaf, a))), nil, "bytes of the credentials are passed to "+callee)
	}
	visit = func(v *Val, depth int) {
		if v == nil || v.T == nil || depth > 3 {
			return
		}
		switch {
		case isStringT(v.T):
			check(v.L[0], v.L[1])
		case isSliceT(v.T):
			et := elemOf(v.T)
			if typeStr(et) == "uint8" {
				check(v.L[0], v.L[1])
				return
			}
			// a slice of interfaces (varargs) with a literal length
			if n, ok := parseIntLit(v.L[1]); ok && n.IsInt64() && n.Int64() <= 16 {
				for i := int64(0); i < n.Int64(); i++ {
					el := fr.load(add(v.L[0], intLit(i*int64(slots(et)))), et)
					visit(el, depth+1)
				}
			}
		case isIfaceT(v.T):
			if it, ok := v.T.Underlying().(*types.Interface); ok && it.NumMethods() > 0 {
				return // an object with behaviour (the caller's writer), not a boxed value
			}
			// boxed values: look inside for every candidate dynamic type that carries bytes
			var ids []int
			for id := range vc.w.typeByID {
				ids = append(ids, id)
			}
			sort.Ints(ids) // a fixed order: the solvers' running time depends on the order of the assertions
			for _, id := range ids {
				t := vc.w.typeByID[id]
				if isStringT(t) || isSliceT(t) && typeStr(elemOf(t)) == "uint8" {
					inner := fr.load(v.L[1], t)
					save := fr.reach
					fr.reach = and(fr.reach, eq(v.L[0], intLit(int64(id))))
					visit(inner, depth+1)
					fr.reach = save
				} else if at, ok := t.Underlying().(*types.Array); ok && isStringT(at.Elem()) {
					inner := fr.load(v.L[1], t)
					save := fr.reach
					fr.reach = and(fr.reach, eq(v.L[0], intLit(int64(id))))
					for j := 0; j < int(at.Len()); j++ {
						visit(&Val{T: at.Elem(), L: inner.L[2*j : 2*j+2]}, depth+1)
					}
					fr.reach = save
				}
			}
		}
	}
	for _, a := range args {
		visit(a, 0)
	}
}

// checkEnsures emits the postcondition obligations of the root function at a
// return site.
func (fr *Frame) checkEnsures(ins *ssa.Return, res *Val) {
	c := fr.contract
	saveLets := fr.vc.curLets
	fr.vc.curLets = c.Lets
	defer func() { fr.vc.curLets = saveLets }()
	scope := map[string]*Val{}
	for k, v := range fr.params {
		scope[k] = v
	}
	bindResults(scope, res)
	name := shortFuncName(fr.fn.String())
	for i, e := range c.Ensures {
		if !clauseActive(e.Tags, fr.vc.w.prop) {
			continue
		}
		t := fr.evalGoal(e.Expr, scope, fr.st, fr.entry)
		label := e.Label
		if label == "" {
			label = fmt.Sprintf("%d", i)
		}
		fr.vc.obligeNamed(fr, fmt.Sprintf("%s/ensures/%s", name, label), "ensures", t, e.Tags, e.Src)
	}
	if len(c.Assigns) > 0 || c.Pure {
		fr.checkFrame(c, scope)
	}
}

func onlyGhostAssigns(c *Contract) bool {
	for _, a := range c.Assigns {
		if !(a.Expr.Kind == "ident" && len(a.Expr.Name) > 0 && a.Expr.Name[0] == '$' && a.Expr.Name != "$heap") {
			return false
		}
	}
	return true
}

// mayInline: bodies of the verified package (and its closures, wrappers) and a
// short list of small standard-library functions are verified by inlining;
// everything else needs a contract or a trusted model.
func (w *World) mayInline(fn *ssa.Function) bool {
	pkg := fn.Pkg
	for p := fn.Parent(); pkg == nil && p != nil; p = p.Parent() {
		pkg = p.Pkg
	}
	if pkg == nil {
		// synthetic wrappers (bound methods, thunks) of package types
		if fn.Signature.Recv() != nil || fn.Synthetic != "" {
			return true
		}
		return false
	}
	if pkg == w.pkg {
		return true
	}
	switch pkg.Pkg.Path() {
	case "encoding/binary", "io":
		return true
	}
	return false
}
