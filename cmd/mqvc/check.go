package main

// Property-level driver: roots per property, obligation discharge, verdict
// lines, evidence file, known findings.

import (
	"crypto/sha256"
	"encoding/json"
	"fmt"
	"os"
	"path/filepath"
	"sort"
	"strconv"
	"strings"
	"sync"
	"time"
)

type PropSpec struct {
	ID    string
	Roots []string
	// Kinds restricts automatically generated (panic) obligations; contract
	// obligations are selected by clause tags.
	AutoKinds bool
	InvariantMethods bool // also verify every method carrying a type invariant
	Prepare func(w *World) []string // adds generated contracts, returns extra roots
	Secrets []string // information-flow mode: secret byte slices of the root receiver
	SecretRecv string // receiver type the secrets belong to
	ForceInline []string // callees verified in place although they have contracts
	ThoroughRoots []string // additional roots of the thorough tier (obligations too slow for the quick limits)
	Note      string
	Extra     func(w *World, run *PropRun)
}

var autoKinds = map[string]bool{"index": true, "slice": true, "nil-deref": true, "type-assert": true, "panic": true,
	"make-len": true, "div-zero": true, "nil-call": true, "dyn-call": true, "nil-map": true, "extern-pre": true}

type PropRun struct {
	Spec     *PropSpec
	Tier     string
	Results  []*Result
	Roots    []string
	Unsup    []string
	Notes    []string
	Trusted  map[string]bool
	Inlined  map[string]bool
	Used     map[string]bool
	Extra    []string // extra evidence lines
	Bounded  []string
	ExtraObs int
	ExtraOK  int
	Viol     []violation
	mu       sync.Mutex
}

type violation struct {
	ob      string
	replay  string
	noInput bool
	desc    string
}

func clauseActive(tags []string, prop string) bool {
	if len(tags) == 0 || prop == "" {
		return true
	}
	for _, t := range tags {
		if t == prop {
			return true
		}
		for _, a := range propAlso[prop] {
			if t == a {
				return true
			}
		}
	}
	return false
}

// propAlso: clauses tagged for these properties are also active when the key
// property is checked (C01 composes the encoder contracts of C02 with the
// decoder contracts of C03 and re-proves them in the same run).
var propAlso = map[string][]string{}

type knownFinding struct {
	prop string
	ob   string
	root string // optional: only when the obligation arises while verifying this function
	text string
}

func readKnownFindings() []knownFinding {
	data, err := os.ReadFile("/verif/known_findings.txt")
	if err != nil {
		return nil
	}
	var out []knownFinding
	for _, line := range strings.Split(string(data), "\n") {
		line = strings.TrimSpace(line)
		if !strings.HasPrefix(line, "finding:") {
			continue
		}
		rest := strings.TrimSpace(line[len("finding:"):])
		var kf knownFinding
		for _, f := range strings.Fields(rest) {
			if strings.HasPrefix(f, "property=") {
				kf.prop = f[len("property="):]
			} else if strings.HasPrefix(f, "obligation=") {
				kf.ob = f[len("obligation="):]
			} else if strings.HasPrefix(f, "root=") {
				kf.root = f[len("root="):]
			}
		}
		kf.text = rest
		out = append(out, kf)
	}
	return out
}

func runCheck(args []string) int {
	if len(args) < 1 {
		fatal("usage: mqvc check <Cnn> [quick|thorough]")
	}
	id := args[0]
	tier := "quick"
	if len(args) > 1 {
		tier = args[1]
	}
	if t := os.Getenv("VERIF_TIER"); t != "" && len(args) < 2 {
		tier = t
	}
	spec := propSpecs[id]
	if spec == nil {
		fatal("unknown property %s", id)
	}
	t0 := time.Now()
	os.Setenv("MQVC_PROP_INTERNAL", id)
	w := loadWorld()
	w.prop = id
	w.applyOnlyFor()
	w.secrets = spec.Secrets
	w.secretRecv = spec.SecretRecv
	w.taintRoots = map[string]bool{}
	for _, r := range spec.Roots {
		w.taintRoots[r] = true
	}
	w.forceInline = map[string]bool{}
	for _, f := range spec.ForceInline {
		w.forceInline[f] = true
	}
	run := &PropRun{Spec: spec, Tier: tier, Trusted: map[string]bool{}, Inlined: map[string]bool{}, Used: map[string]bool{}}
	timeout := 10000
	if tier == "thorough" {
		timeout = 60000
	}
	// transitive closure of roots over used contracts
	todo := append([]string{}, spec.Roots...)
	if tier == "thorough" {
		todo = append(todo, spec.ThoroughRoots...)
	}
	if spec.InvariantMethods {
		todo = append(todo, w.invariantMethods...)
	}
	if spec.Prepare != nil {
		todo = append(todo, spec.Prepare(w)...)
	}
	if r := os.Getenv("MQVC_ROOTS"); r != "" {
		todo = strings.Split(r, ",")
	}
	seen := map[string]bool{}
	var vcs []*VC
	for len(todo) > 0 {
		name := todo[0]
		todo = todo[1:]
		if seen[name] {
			continue
		}
		seen[name] = true
		fn := w.funcs[name]
		if fn == nil {
			run.Unsup = append(run.Unsup, "root function not found: "+name)
			continue
		}
		if c := w.contracts[name]; c != nil && c.Trusted {
			run.Trusted["contract of "+name+" (trusted, body not verified)"] = true
			continue
		}
		vc := w.buildVC(fn)
		vcs = append(vcs, vc)
		run.Roots = append(run.Roots, name)
		for _, u := range sortedKeys(vc.used) {
			if !seen[u] {
				todo = append(todo, u)
			}
		}
	}
	// solve in parallel
	var wg sync.WaitGroup
	par := 6 // (solver processes are bounded separately, see cpuTokens)
	sem := make(chan struct{}, par)
	resCh := make([][]*Result, len(vcs))
	for i, vc := range vcs {
		wg.Add(1)
		go func(i int, vc *VC) {
			defer wg.Done()
			sem <- struct{}{}
			defer func() { <-sem }()
			t1 := time.Now()
			resCh[i] = solveVC(vc, solveOpts{timeoutMs: timeout})
			if os.Getenv("MQVC_TIMING") != "" {
				fmt.Fprintf(os.Stderr, "timing %6.1fs %5d obligations %s\n", time.Since(t1).Seconds(), len(resCh[i]), shortFuncName(vc.root.String()))
			}
		}(i, vc)
	}
	wg.Wait()
	for i, vc := range vcs {
		run.Results = append(run.Results, resCh[i]...)
		for _, u := range vc.unsup {
			run.Unsup = append(run.Unsup, u)
		}
		run.Notes = append(run.Notes, vc.notes...)
		for k := range vc.trusted {
			run.Trusted[k] = true
		}
		for k := range vc.inlined {
			run.Inlined[k] = true
		}
		for k := range vc.used {
			run.Used[k] = true
		}
	}
	if spec.Extra != nil {
		spec.Extra(w, run)
	}
	return run.report(w, t0)
}

func (run *PropRun) report(w *World, t0 time.Time) int {
	id := run.Spec.ID
	known := readKnownFindings()
	isKnown := func(ob, root string) *knownFinding {
		for i := range known {
			if known[i].prop == id && known[i].ob == stripOcc(ob) && (known[i].root == "" || known[i].root == root) {
				return &known[i]
			}
		}
		return nil
	}
	os.MkdirAll("/verif/replays/"+id, 0o755)
	total, discharged := 0, 0
	bySolver := map[string]int{}
	var solverSecs float64
	var samples []map[string]interface{}
	exit := 0
	knownPrinted := map[string]bool{}
	var knownLines []string
	var failed []*Result
	var slow []string
	for _, r := range run.Results {
		if r.Ob.Kind == "map-range-order" && id != "C11" && id != "C01" {
			continue // iteration-order dependence is decided under C11
		}
		if r.Ob.Kind == "decreases" && (id == "C04" || id == "C19") {
			continue // termination is decided under C05
		}
		total++
		if r.Status == "unsat" {
			discharged++
			bySolver[r.Solver]++
			solverSecs += r.Secs
			if r.Solver != "simplifier" && r.Solver != "z3-new/qf" {
				slow = append(slow, fmt.Sprintf("%.1fs %s %s", r.Secs, r.Solver, r.Ob.Name))
			}
			if len(samples) < 6 && r.Solver != "simplifier" {
				samples = append(samples, map[string]interface{}{"obligation": r.Ob.Name, "kind": r.Ob.Kind, "claim": r.Ob.Desc, "backend": r.Solver, "status": "discharged"})
			}
			continue
		}
		failed = append(failed, r)
	}
	nviol := 0
	for _, r := range failed {
		if kf := isKnown(r.Ob.Name, shortFuncName(r.VC.root.String())); kf != nil {
			if !knownPrinted[kf.ob] {
				fmt.Printf("KNOWN-FINDING: property=%s %s\n", id, strings.TrimSpace(strings.TrimPrefix(kf.text, "property="+id)))
				knownLines = append(knownLines, strings.TrimSpace(strings.TrimPrefix(kf.text, "property="+id)))
				knownPrinted[kf.ob] = true
			}
			total-- // known findings are not part of the claimed obligation set
			continue
		}
		nviol++
		path := fmt.Sprintf("/verif/replays/%s/%s.txt", id, sanitize(r.Ob.Name))
		site := stripOcc(r.Ob.Name)
		if i := strings.Index(site, "@"); i > 0 {
			site = site[:i]
		}
		var confirmed bool
		if prev, ok := replayDone[site]; ok {
			// same site reached through another path: one replay stands for all of them
			confirmed = prev.confirmed
			data, _ := os.ReadFile(prev.path)
			os.WriteFile(path, append([]byte(fmt.Sprintf("obligation: %s (same site as %s, replay shared)\n", r.Ob.Name, prev.path)), data...), 0o644)
		} else if len(replayDone) >= maxReplays {
			os.WriteFile(path, []byte(fmt.Sprintf("property: %s\nobligation: %s\nclaim: %s\nstatus: %s (%s)\n\nno-failing-input-found: replay not attempted (more than %d distinct failing sites in this run)\n", id, r.Ob.Name, r.Ob.Desc, r.Status, r.Solver, maxReplays)), 0o644)
		} else {
			confirmed = writeReplay(w, r, path, id)
			replayDone[site] = replayRec{path, confirmed}
		}
		suffix := ""
		if !confirmed {
			suffix = " no-failing-input-found"
		}
		fmt.Printf("VIOLATION property=%s replay=%s obligation=%s status=%s%s\n", id, path, r.Ob.Name, r.Status, suffix)
		exit = 1
	}
	sort.Strings(run.Unsup)
	run.Unsup = uniq(run.Unsup)
	for _, u := range run.Unsup {
		nviol++
		path := fmt.Sprintf("/verif/replays/%s/unsupported-%x.txt", id, sha256.Sum256([]byte(u)))[:80] + ".txt"
		os.WriteFile(path, []byte("obligation: generator/unsupported\nreason: "+u+"\nThe function uses a construct outside the verified Go subset; its obligations can no longer be generated, so the property is not proved for it.\n"), 0o644)
		fmt.Printf("VIOLATION property=%s replay=%s obligation=generator/unsupported (%s) no-failing-input-found\n", id, path, u)
		exit = 1
	}
	for _, v := range run.Viol {
		nviol++
		suffix := ""
		if v.noInput {
			suffix = " no-failing-input-found"
		}
		fmt.Printf("VIOLATION property=%s replay=%s obligation=%s%s\n", id, v.replay, v.ob, suffix)
		exit = 1
	}
	total += run.ExtraObs
	discharged += run.ExtraOK
	// evidence
	var trusted []string
	trusted = append(trusted, "x/tools go/packages + go/ssa v0.29.0 as front end; Go compiler/runtime semantics for the verified subset",
		"the VC generator (cmd/mqvc) and the SMT solvers z3 5.1.0 / z3 4.8.12 / cvc5 1.0.3",
		"64-bit int/uint addition and multiplication treated as mathematical (offsets and lengths bounded by addressable memory; slice capacities <= 2^48)",
		"package-level variables keep their initial values (_LEN nil, ErrMissingData non-nil)",
		"methods are verified for non-nil receivers",
		"memory safety of well-typed Go: slices, strings and pointers read from memory (also pointers held in interface values, at dynamic dispatch) refer to whole allocated objects; memory of different Go types does not alias",
		"inside contract expressions (which never write) a string/[]byte conversion shares the bytes of its source instead of copying them")
	for _, r := range run.Roots {
		if !strings.Contains(r, ".") && (strings.HasPrefix(r, "rt") || strings.HasPrefix(r, "dec")) {
			trusted = append(trusted,
				"ghost harnesses (rt*, dec* in /repo/spec_verif.go): the harness builds the decoder's input and receiver the way ReadRemaining does (first byte copied into a zero packet, body behind the remaining-length field, remaining length 0 not decoded); this mirror is reviewed, not verified against ReadRemaining",
				"while a harness is the root, the first evaluation of each loop header is peeled (a loop left at once leaves the state unchanged; the arbitrary-iteration state then stands for loops entered at least once) and assumed bounded quantifiers are also instantiated at the indices 0..3")
			break
		}
	}
	for _, k := range sortedKeys(run.Trusted) {
		if d, ok := externDoc[k]; ok {
			trusted = append(trusted, "trusted model: "+d)
		} else {
			trusted = append(trusted, "trusted model: "+k)
		}
	}
	trusted = uniq(trusted)
	cov := map[string]interface{}{
		"obligations":        total,
		"discharged":         discharged,
		"checker_cmd":        fmt.Sprintf("/verif/check %s %s", id, run.Tier),
		"trusted_base":       trusted,
		"samples":            samples,
		"functions_verified": run.Roots,
		"functions_inlined":  sortedKeys(run.Inlined),
		"contracts_used":     sortedKeys(run.Used),
		"backends":           bySolver,
		"solver_seconds":     round2(solverSecs),
		"notes":              uniq(run.Notes),
		"needed_full_hypotheses": slow,
		"known_findings":     knownLines,
		"extra":              run.Extra,
		"bounded_standins":   run.Bounded,
		"explanation":        run.Spec.Note,
	}
	ev := map[string]interface{}{
		"property_id": id,
		"tier":        run.Tier,
		"seed":        seedEnv(),
		"level":       "proof",
		"coverage":    cov,
		"assumptions": trusted,
		"wall_s":      round2(time.Since(t0).Seconds()),
		"violations":  nviol,
	}
	evDir := "/verif/evidence"
	if d := os.Getenv("MQVC_EVIDENCE_DIR"); d != "" {
		evDir = d // runs against deliberately modified trees must not overwrite the committed evidence
	}
	os.MkdirAll(evDir, 0o755)
	data, _ := json.MarshalIndent(ev, "", " ")
	os.WriteFile(filepath.Join(evDir, id+".json"), data, 0o644)
	fmt.Printf("%s %s: %d obligations, %d discharged, %d violations, %.1fs\n", id, run.Tier, total, discharged, nviol, time.Since(t0).Seconds())
	return exit
}

type replayRec struct {
	path      string
	confirmed bool
}

var replayDone = map[string]replayRec{}

const maxReplays = 4

func stripOcc(name string) string {
	if i := strings.LastIndex(name, "#"); i > 0 {
		if _, err := strconv.Atoi(name[i+1:]); err == nil {
			return name[:i]
		}
	}
	return name
}

func round2(f float64) float64 { return float64(int(f*100+0.5)) / 100 }

func seedEnv() int {
	n, _ := strconv.Atoi(os.Getenv("VERIF_SEED"))
	return n
}

func uniq(in []string) []string {
	seen := map[string]bool{}
	var out []string
	for _, s := range in {
		if !seen[s] {
			seen[s] = true
			out = append(out, s)
		}
	}
	return out
}

// checkFrame: obligations that nothing outside the assigns clauses changed.
func (fr *Frame) checkFrame(c *Contract, scope map[string]*Val) {
	// ghost state: anything not named in assigns keeps its entry value
	named := map[string]bool{}
	heapAll := false
	for _, a := range c.Assigns {
		if a.Expr.Kind == "ident" {
			named[a.Expr.Name] = true
			if a.Expr.Name == "$heap" {
				heapAll = true
			}
		}
	}
	name := shortFuncName(fr.fn.String())
	if !heapAll {
		fr.checkHeapFrame(c, scope, name)
	}
	for _, g := range []string{"$pos", "$reads", "$writes"} {
		if named[g] {
			continue
		}
		now, ok := fr.st.ghost[g]
		if !ok {
			continue
		}
		was, ok := fr.entry.ghost[g]
		if !ok {
			was = fr.vc.ghostInit(g)
		}
		fr.vc.obligeNamed(fr, fmt.Sprintf("%s/frame/%s", name, g), "frame", eq(now, was), nil, g+" is not in the assigns clause and must be unchanged")
	}
}

// checkHeapFrame: every location that existed at function entry and is not
// named by an assigns clause holds its entry value at this return.
func (fr *Frame) checkHeapFrame(c *Contract, scope map[string]*Val, name string) {
	vc := fr.vc
	locs, _, _ := fr.assignLocs(c.Assigns, scope, fr.entry)
	var keys []string
	for k, now := range fr.st.heap {
		if was, ok := fr.entry.heap[k]; ok && was == now {
			continue
		}
		if _, ok := fr.entry.heap[k]; !ok && now == k+"_0" {
			continue
		}
		keys = append(keys, k)
	}
	sort.Strings(keys)
	for _, k := range keys {
		if k == "G_taint" {
			continue // ghost information-flow map, not program memory
		}
		lf := leafByKey[k]
		a := vc.fresh("fr_a", "Int")
		conds := []string{le("1", a), lt(a, fr.entry.wm)}
		for _, loc := range locs {
			if loc.cell {
				for _, l := range flatten(loc.t) {
					if l.Key == k {
						c := eq(a, add(loc.addr, intLit(int64(l.Slot))))
						if loc.cond != "" {
							c = and(loc.cond, c)
						}
						conds = append(conds, not(c))
					}
				}
				continue
			}
			touches := false
			for _, l := range flatten(loc.elemT) {
				if l.Key == k {
					touches = true
				}
			}
			if touches {
				conds = append(conds, not(and(le(loc.lo, a), lt(a, loc.hi))))
			}
		}
		now := vc.read(fr.st, lf, a)
		was := vc.read(fr.entry, lf, a)
		vc.obligeNamed(fr, fmt.Sprintf("%s/frame/%s", name, k), "frame", imp(and(conds...), eq(now, was)), nil,
			"memory of kind "+strings.TrimPrefix(k, "H_")+" outside the assigns clause is unchanged")
	}
}
