package main

func runCheck(args []string) int { return 2 }

// checkFrame: obligations that nothing outside the assigns clauses changed.
func (fr *Frame) checkFrame(c *Contract, scope map[string]*Val) {}
