package main

// Symbolic executor over go/ssa: frames, regions (loop-free DAG pieces),
// loops (cut with invariants, or unrolled for ranges over literal maps).

import (
	"fmt"
	"go/types"
	"math/big"
	"sort"
	"strings"

	"golang.org/x/tools/go/ssa"
)

type Edge struct {
	from *ssa.BasicBlock
	cond string
	st   *State
	phi  []*Val
	over map[ssa.Value]*Val
}

type retEdge struct {
	cond string
	st   *State
	res  *Val
	ins  *ssa.Return
}

type Frame struct {
	vc       *VC
	fn       *ssa.Function
	id       int
	prefix   string
	vals     map[ssa.Value]*Val
	entry    *State
	rets     []retEdge
	depth    int
	parent   *Frame
	loops    map[*ssa.BasicBlock]*Loop
	contract *Contract
	isRoot   bool
	params   map[string]*Val

	// current position
	reach string
	st    *State
	block *ssa.BasicBlock

	// unroll context: map iterator positions
	iterPos map[*SymIter]int
	inst    string
	ghostIn map[string]*Val // named ghost values for contract evaluation

	loopEntryVals map[*Loop][]*Val
	site          int // for an inlined frame: ordinal of the call site among the caller's calls of this function
	rootLocs     []assignLoc
	rootLocsAll  bool
	rootLocsDone bool
}

func (vc *VC) newFrame(fn *ssa.Function, parent *Frame) *Frame {
	vc.nframe++
	fr := &Frame{vc: vc, fn: fn, id: vc.nframe, vals: map[ssa.Value]*Val{}, parent: parent,
		iterPos: map[*SymIter]int{}, params: map[string]*Val{}}
	fr.prefix = fmt.Sprintf("f%d", fr.id)
	if parent != nil {
		fr.depth = parent.depth + 1
	}
	w := vc.w
	if l, ok := w.loopsOf[fn]; ok {
		fr.loops = l
	} else {
		fr.loops = findLoops(fn)
		w.loopsOf[fn] = fr.loops
	}
	fr.contract = w.contracts[shortFuncName(fn.String())]
	return fr
}

// ---- values ----

func (fr *Frame) set(v ssa.Value, val *Val) {
	if val == nil {
		return
	}
	if val.Tup == nil && len(val.L) > 0 {
		leaves := flatten(val.T)
		if len(leaves) == len(val.L) {
			nl := make([]string, len(val.L))
			for i, t := range val.L {
				nl[i] = fr.vc.define(fr.prefix+"_"+v.Name()+fr.inst, leaves[i].Sort, t)
			}
			val = &Val{T: val.T, L: nl, Fn: val.Fn, Tags: val.Tags, Map: val.Map, Iter: val.Iter, Alts: val.Alts}
		}
	}
	fr.vals[v] = val
}

func (fr *Frame) get(v ssa.Value) *Val {
	switch v := v.(type) {
	case *ssa.Const:
		return fr.constVal(v)
	case *ssa.Global:
		return &Val{T: v.Type(), L: []string{intLit(fr.vc.w.globalAddr(v))}}
	case *ssa.Function:
		c := fr.vc.newClosure(v, nil)
		return &Val{T: v.Type(), L: []string{intLit(int64(c.id))}, Fn: []int{c.id}}
	case *ssa.Builtin:
		panic("builtin as value")
	}
	if val, ok := fr.vals[v]; ok {
		return val
	}
	fr.vc.unsupported(fr, "use of undefined value "+v.Name())
	return fr.havoc(v.Type(), "undef")
}

func (vc *VC) newClosure(fn *ssa.Function, binds []*Val) *Closure {
	c := &Closure{id: len(vc.closures) + 1, fn: fn, binds: binds}
	vc.closures = append(vc.closures, c)
	return c
}

func (fr *Frame) constVal(c *ssa.Const) *Val {
	t := c.Type()
	leaves := flatten(t)
	if c.Value == nil { // zero value / nil
		v := &Val{T: t}
		for _, l := range leaves {
			v.L = append(v.L, zeroLeaf(l))
		}
		if isIfaceT(t) {
			v.Tags = []int{0}
		}
		if _, ok := t.Underlying().(*types.Signature); ok {
			v.Fn = []int{0}
		}
		if mt, ok := t.Underlying().(*types.Map); ok {
			v.Map = &SymMap{elemT: mt.Elem(), keyT: mt.Key()}
		}
		return v
	}
	b, ok := t.Underlying().(*types.Basic)
	if !ok {
		panic("const of non-basic type " + t.String())
	}
	info := b.Info()
	switch {
	case info&types.IsBoolean != 0:
		if c.Value.String() == "true" {
			return &Val{T: t, L: []string{tTrue}}
		}
		return &Val{T: t, L: []string{tFalse}}
	case info&types.IsString != 0:
		s := constString(c)
		if len(s) == 0 {
			return &Val{T: t, L: []string{"0", "0"}}
		}
		return &Val{T: t, L: []string{intLit(fr.vc.w.strLitAddr(s)), intLit(int64(len(s)))}}
	case info&types.IsInteger != 0:
		l := leaves[0]
		if l.Kind == lkInt {
			if l.Signed {
				return &Val{T: t, L: []string{intLit(c.Int64())}}
			}
			return &Val{T: t, L: []string{fmt.Sprintf("%d", c.Uint64())}}
		}
		if l.Signed {
			return &Val{T: t, L: []string{bvLit(uint64(c.Int64()), l.Width)}}
		}
		return &Val{T: t, L: []string{bvLit(c.Uint64(), l.Width)}}
	}
	panic("unsupported constant " + c.String())
}

// havoc returns a fresh unconstrained value of type t satisfying its type
// invariant.
func (fr *Frame) havoc(t types.Type, hint string) *Val {
	if tup, ok := t.(*types.Tuple); ok {
		v := &Val{T: t}
		for i := 0; i < tup.Len(); i++ {
			v.Tup = append(v.Tup, fr.havoc(tup.At(i).Type(), hint))
		}
		return v
	}
	v := &Val{T: t}
	for _, l := range flatten(t) {
		v.L = append(v.L, fr.vc.fresh(fr.prefix+"_"+hint, l.Sort))
	}
	if mt, ok := t.Underlying().(*types.Map); ok {
		v.Map = &SymMap{opaque: true, elemT: mt.Elem(), keyT: mt.Key()}
	}
	fr.vc.assume(typeInv(t, v.L, fr.st.wm))
	return v
}

const replayBulk = 6

const maxCap = "281474976710656" // 2^48

// typeInv is the Go type-safety invariant of a value relative to the
// allocation watermark.
func typeInv(t types.Type, L []string, wm string) string {
	var cs []string
	leaves := flatten(t)
	if len(leaves) != len(L) {
		return tTrue
	}
	for i := 0; i < len(leaves); i++ {
		l := leaves[i]
		x := L[i]
		if isLit(x) {
			continue
		}
		switch l.Kind {
		case lkInt:
			if l.Signed {
				cs = append(cs, le(bigLit(new(big.Int).Neg(two63)), x), lt(x, bigLit(two63)))
			} else {
				cs = append(cs, le("0", x), lt(x, bigLit(two64)))
			}
		case lkPtr:
			cs = append(cs, le("0", x), lt(x, wm))
			if pt, ok := l.Cell.Underlying().(*types.Pointer); ok {
				// the whole pointee lies below the watermark
				cs = append(cs, or(eq(x, "0"), le(add(x, intLit(int64(allocSlots(pt.Elem())))), wm)))
			}
		case lkIval:
			cs = append(cs, le("0", x), lt(x, wm))
		case lkTag, lkFn, lkMap:
			cs = append(cs, le("0", x))
		case lkBase:
			cs = append(cs, le("0", x))
			if isStringT(l.Cell) {
				ln := L[i+1]
				cs = append(cs, le("0", ln), le(ln, maxCap), le(add(x, ln), wm))
			} else {
				ln, cp := L[i+1], L[i+2]
				es := int64(slots(elemOf(l.Cell)))
				cs = append(cs, le("0", ln), le(ln, cp), le(cp, maxCap), le(add(x, mul(cp, intLit(es))), wm),
					imp(eq(x, "0"), eq(cp, "0")))
			}
		}
	}
	return and(cs...)
}

// ---- memory ----

func (fr *Frame) load(addr string, t types.Type) *Val {
	v := &Val{T: t}
	for _, l := range flatten(t) {
		rememberLeaf(l)
		a := add(addr, intLit(int64(l.Slot)))
		v.L = append(v.L, fr.vc.read(fr.st, l, a))
		if fr.vc.taint && l.Key == "H_uint8" && fr.vc.specDepth == 0 {
			// information flow: the program never looks at a secret byte directly
			fr.vc.nsecret++
			fr.vc.obligeNamed(fr, fmt.Sprintf("%s/secret-read/%d", shortFuncName(fr.fn.String()), fr.vc.nsecret), "secret-read",
				not(fr.vc.read(fr.st, taintLeaf, a)), nil, "a byte of the credentials is read directly")
		}
	}
	if mt, ok := t.Underlying().(*types.Map); ok {
		v.Map = &SymMap{opaque: true, elemT: mt.Elem(), keyT: mt.Key()}
	}
	return v
}

func (fr *Frame) loadAssume(addr string, t types.Type, v *Val) {
	vc := fr.vc
	vc.assume(imp(fr.reach, typeInv(t, v.L, fr.st.wm)))
	// a cell that still holds the value it had when its heap was last havoced
	// (function entry, loop head) was well formed with respect to the watermark
	// of that moment: nothing allocated since can overlap what it refers to
	leaves := flatten(t)
	for i, l := range leaves {
		if l.Kind != lkBase && l.Kind != lkPtr {
			continue
		}
		arr0, wm0 := l.Key+"_0", "wm0"
		if ep, ok := fr.st.epoch[l.Key]; ok {
			arr0, wm0 = ep[0], ep[1]
		}
		if l.Kind == lkPtr && isStructPtr(l.Cell) {
			// a struct pointer read from memory never points into the middle of another object
			for _, ro := range vc.rootObjs {
				vc.assume(imp(fr.reach, objApart(v.L[i], elemOf(l.Cell), ro.addr, ro.t)))
			}
		}
		if wm0 == fr.st.wm || arr0 == "?" {
			continue
		}
		if !vc.declared[arr0] && strings.HasSuffix(arr0, "_0") {
			continue
		}
		a := add(addr, intLit(int64(l.Slot)))
		same := eq(v.L[i], sel(arr0, a))
		var fact string
		if l.Kind == lkPtr {
			pt, ok := l.Cell.Underlying().(*types.Pointer)
			if !ok {
				continue
			}
			fact = or(eq(v.L[i], "0"), le(add(v.L[i], intLit(int64(allocSlots(pt.Elem())))), wm0))
		} else if isStringT(l.Cell) {
			fact = le(add(v.L[i], v.L[i+1]), wm0)
		} else {
			es := int64(slots(elemOf(l.Cell)))
			fact = le(add(v.L[i], mul(v.L[i+2], intLit(es))), wm0)
		}
		vc.assume(imp(and(fr.reach, same), fact))
	}
}

func (fr *Frame) storeVal(addr string, t types.Type, v *Val) {
	leaves := flatten(t)
	if len(leaves) != len(v.L) {
		fr.vc.unsupported(fr, fmt.Sprintf("store shape mismatch %s", t))
		return
	}
	for i, l := range leaves {
		rememberLeaf(l)
		a := add(addr, intLit(int64(l.Slot)))
		fr.vc.logStore(l.Key, a, "")
		fr.vc.setArr(fr.st, l, store(fr.vc.arr(fr.st, l), a, v.L[i]))
		if fr.vc.taint && l.Key == "H_uint8" {
			fr.vc.setArr(fr.st, taintLeaf, store(fr.vc.arr(fr.st, taintLeaf), a, tFalse))
		}
	}
}

var taintLeaf = Leaf{Sort: "Bool", Key: "G_taint", Kind: lkBool}

// bulkLeaves: the leaves a bulk operation on elements of type t acts on; in
// information-flow mode the taint of bytes moves with the bytes.
func (fr *Frame) bulkLeaves(t types.Type) []Leaf {
	ls := flatten(t)
	if fr.vc.taint && len(ls) == 1 && ls[0].Key == "H_uint8" {
		return append(append([]Leaf{}, ls...), taintLeaf)
	}
	return ls
}

// alloc reserves count (a term) values of type t and returns the address.
func (fr *Frame) alloc(t types.Type, count string) string {
	addr := fr.st.wm
	if fr.vc.logStores {
		fr.vc.allocLog[addr] = true
	}
	n := int64(allocSlots(t))
	size := add(mul(count, intLit(n)), "1")
	fr.st.wm = fr.vc.define(fr.prefix+"_wm", "Int", add(addr, size))
	return addr
}

// zeroRange sets count elements of type t at base to zero values.
func (fr *Frame) zeroRange(t types.Type, base, count string) {
	n := int64(slots(t))
	if c, ok := parseIntLit(count); ok && c.IsInt64() && c.Int64()*n <= 8 {
		for k := int64(0); k < c.Int64(); k++ {
			for _, l := range fr.bulkLeaves(t) {
				rememberLeaf(l)
				a := add(base, intLit(k*n+int64(l.Slot)))
				fr.vc.logStore(l.Key, a, "")
				fr.vc.setArr(fr.st, l, store(fr.vc.arr(fr.st, l), a, zeroLeaf(l)))
			}
		}
		return
	}
	for _, l := range fr.bulkLeaves(t) {
		fr.vc.logStore(l.Key, base, mul(count, intLit(n)))
	}
	if fr.vc.w.unroll > 0 {
		// replay aid: sizes are bounded and the bulk operation is expanded
		fr.vc.assume(imp(fr.reach, le(count, intLit(replayBulk))))
		for k := int64(0); k < replayBulk; k++ {
			for _, l := range fr.bulkLeaves(t) {
				rememberLeaf(l)
				a := add(base, intLit(k*n+int64(l.Slot)))
				cur := fr.vc.arr(fr.st, l)
				fr.vc.setArr(fr.st, l, ite(lt(intLit(k), count), store(cur, a, zeroLeaf(l)), cur))
			}
		}
		return
	}
	hi := add(base, mul(count, intLit(n)))
	done := map[string]bool{}
	for _, l := range fr.bulkLeaves(t) {
		if done[l.Key] {
			continue
		}
		done[l.Key] = true
		rememberLeaf(l)
		old := fr.vc.arr(fr.st, l)
		nw := fr.vc.fresh(l.Key, "(Array Int "+l.Sort+")")
		zl := zeroLeaf(l)
		fr.vc.addAxiomArr(l.Key, nw, old, fmt.Sprintf("(forall ((a Int)) (! (= (select %s a) (ite (and (<= %s a) (< a %s)) %s (select %s a))) :pattern ((select %s a))))",
			nw, base, hi, zl, old, nw), func(idx string) (string, []string) {
			return eq(sel(nw, idx), ite(and(le(base, idx), lt(idx, hi)), zl, sel(old, idx))), nil
		})
		fr.st.heap[l.Key] = nw
	}
}

// copyRange copies count elements of type t from src to dst (memmove
// semantics: the source is read from the old heap).
func (fr *Frame) copyRange(t types.Type, dst, src, count string) {
	n := int64(slots(t))
	if c, ok := parseIntLit(count); ok && c.IsInt64() && c.Int64()*n <= 8 {
		type wr struct {
			l    Leaf
			a, v string
		}
		var ws []wr
		for k := int64(0); k < c.Int64(); k++ {
			for _, l := range fr.bulkLeaves(t) {
				rememberLeaf(l)
				off := intLit(k*n + int64(l.Slot))
				ws = append(ws, wr{l, add(dst, off), fr.vc.read(fr.st, l, add(src, off))})
			}
		}
		for _, w := range ws {
			fr.vc.logStore(w.l.Key, w.a, "")
			fr.vc.setArr(fr.st, w.l, store(fr.vc.arr(fr.st, w.l), w.a, w.v))
		}
		return
	}
	for _, l := range fr.bulkLeaves(t) {
		fr.vc.logStore(l.Key, dst, mul(count, intLit(n)))
	}
	if fr.vc.w.unroll > 0 {
		fr.vc.assume(imp(fr.reach, le(count, intLit(replayBulk))))
		type wr struct {
			l    Leaf
			a, v string
			k    int64
		}
		var ws []wr
		for k := int64(0); k < replayBulk; k++ {
			for _, l := range fr.bulkLeaves(t) {
				rememberLeaf(l)
				off := intLit(k*n + int64(l.Slot))
				ws = append(ws, wr{l, add(dst, off), fr.vc.define("cp", l.Sort, fr.vc.read(fr.st, l, add(src, off))), k})
			}
		}
		for _, w := range ws {
			cur := fr.vc.arr(fr.st, w.l)
			fr.vc.setArr(fr.st, w.l, ite(lt(intLit(w.k), count), store(cur, w.a, w.v), cur))
		}
		return
	}
	hi := add(dst, mul(count, intLit(n)))
	done := map[string]bool{}
	for _, l := range fr.bulkLeaves(t) {
		if done[l.Key] {
			continue
		}
		done[l.Key] = true
		rememberLeaf(l)
		old := fr.vc.arr(fr.st, l)
		nw := fr.vc.fresh(l.Key, "(Array Int "+l.Sort+")")
		fr.vc.addAxiomArr(l.Key, nw, old, fmt.Sprintf("(forall ((a Int)) (! (= (select %s a) (ite (and (<= %s a) (< a %s)) (select %s (+ %s (- a %s))) (select %s a))) :pattern ((select %s a))))",
			nw, dst, hi, old, src, dst, old, nw), func(idx string) (string, []string) {
			from := add(src, sub(idx, dst))
			return eq(sel(nw, idx), ite(and(le(dst, idx), lt(idx, hi)), sel(old, from), sel(old, idx))), []string{from}
		})
		fr.st.heap[l.Key] = nw
	}
}

// ---- state merging ----

type condState struct {
	cond string
	st   *State
}

func (fr *Frame) mergeStates(cs []condState) *State {
	if len(cs) == 1 {
		return cs[0].st.clone()
	}
	out := &State{heap: map[string]string{}, ghost: map[string]string{}, epoch: map[string][2]string{}}
	for k, ep := range cs[0].st.epoch {
		same := true
		for _, c := range cs[1:] {
			if c.st.epoch[k] != ep {
				same = false
			}
		}
		if same {
			out.epoch[k] = ep
		} else {
			out.epoch[k] = [2]string{"?", ""} // unknown: no extra assumption
		}
	}
	keys := map[string]bool{}
	for _, c := range cs {
		for k := range c.st.heap {
			keys[k] = true
		}
	}
	for _, k := range sortedKeys(keys) {
		l := leafByKey[k]
		var terms []string
		same := true
		for _, c := range cs {
			t := fr.vc.arr(c.st, l)
			terms = append(terms, t)
			if t != terms[0] {
				same = false
			}
		}
		if same {
			out.heap[k] = terms[0]
			continue
		}
		t := terms[len(terms)-1]
		for i := len(terms) - 2; i >= 0; i-- {
			t = ite(cs[i].cond, terms[i], t)
		}
		out.heap[k] = fr.vc.define(k, "(Array Int "+l.Sort+")", t)
	}
	// watermark
	{
		t := cs[len(cs)-1].st.wm
		for i := len(cs) - 2; i >= 0; i-- {
			t = ite(cs[i].cond, cs[i].st.wm, t)
		}
		out.wm = fr.vc.define(fr.prefix+"_wm", "Int", t)
	}
	gk := map[string]bool{}
	for _, c := range cs {
		for k := range c.st.ghost {
			gk[k] = true
		}
	}
	gv := func(st *State, k string) string {
		if t, ok := st.ghost[k]; ok {
			return t
		}
		return fr.vc.ghostInit(k)
	}
	for _, k := range sortedKeys(gk) {
		t := gv(cs[len(cs)-1].st, k)
		for i := len(cs) - 2; i >= 0; i-- {
			t = ite(cs[i].cond, gv(cs[i].st, k), t)
		}
		out.ghost[k] = fr.vc.define("g_"+sanitize(k), ghostSort(k), t)
	}
	return out
}

func ghostSort(k string) string { return "Int" }

func iteVal(vc *VC, c string, a, b *Val) *Val {
	if a == nil {
		return b
	}
	if b == nil {
		return a
	}
	if a.Tup != nil {
		r := &Val{T: a.T}
		for i := range a.Tup {
			r.Tup = append(r.Tup, iteVal(vc, c, a.Tup[i], b.Tup[i]))
		}
		return r
	}
	r := &Val{T: a.T}
	if len(a.L) != len(b.L) {
		vc.unsupported(nil, fmt.Sprintf("merge of differently shaped values %v / %v", a.T, b.T))
		return a
	}
	for i := range a.L {
		r.L = append(r.L, ite(c, a.L[i], b.L[i]))
	}
	r.Tags = unionInts(a.Tags, b.Tags)
	r.Fn = unionInts(a.Fn, b.Fn)
	if a.Alts != nil && b.Alts != nil {
		r.Alts = map[int]string{}
		for t, x := range a.Alts {
			if y, ok := b.Alts[t]; ok {
				r.Alts[t] = ite(c, x, y)
			} else {
				r.Alts[t] = x
			}
		}
		for t, y := range b.Alts {
			if _, ok := a.Alts[t]; !ok {
				r.Alts[t] = y
			}
		}
	}
	if a.Map != nil || b.Map != nil {
		if a.Map == b.Map {
			r.Map = a.Map
		} else if a.Map != nil && b.Map != nil && len(a.Map.keys) == 0 && !a.Map.opaque {
			r.Map = b.Map
		} else if a.Map != nil && b.Map != nil && len(b.Map.keys) == 0 && !b.Map.opaque {
			r.Map = a.Map
		} else {
			r.Map = &SymMap{opaque: true}
			if a.Map != nil {
				r.Map.elemT, r.Map.keyT = a.Map.elemT, a.Map.keyT
			}
		}
	}
	if a.Iter == b.Iter {
		r.Iter = a.Iter
	}
	return r
}

func unionInts(a, b []int) []int {
	if a == nil || b == nil {
		return nil
	}
	m := map[int]bool{}
	for _, x := range a {
		m[x] = true
	}
	for _, x := range b {
		m[x] = true
	}
	var out []int
	for x := range m {
		out = append(out, x)
	}
	sort.Ints(out)
	return out
}

// ---- regions ----

type regionResult struct {
	exits   map[*ssa.BasicBlock][]*Edge
	latches []*Edge
}

// execRegion executes the blocks in `blocks` (nil = whole function) starting
// at entry with the given incoming edges.
func (fr *Frame) execRegion(blocks map[*ssa.BasicBlock]bool, entry *ssa.BasicBlock, in []*Edge, loop *Loop, cutHeader bool) *regionResult {
	res := &regionResult{exits: map[*ssa.BasicBlock][]*Edge{}}
	incoming := map[*ssa.BasicBlock][]*Edge{entry: in}
	order := fr.vc.w.rpoOf(fr.fn)
	inLoopDone := map[*ssa.BasicBlock]bool{}
	route := func(from *ssa.BasicBlock, e *Edge, to *ssa.BasicBlock) {
		if e.cond == tFalse {
			return // statically infeasible
		}
		if loop != nil && to == loop.head {
			res.latches = append(res.latches, e)
			return
		}
		if blocks != nil && !blocks[to] {
			res.exits[to] = append(res.exits[to], e)
			return
		}
		incoming[to] = append(incoming[to], e)
	}
	for _, b := range order {
		if blocks != nil && !blocks[b] {
			continue
		}
		if inLoopDone[b] {
			continue
		}
		edges := incoming[b]
		if len(edges) == 0 {
			continue // unreachable in this instance
		}
		if l, ok := fr.loops[b]; ok && l != loop {
			// inner loop as a super node
			ex := fr.execLoop(l, edges)
			for blk := range l.blocks {
				inLoopDone[blk] = true
			}
			var targets []*ssa.BasicBlock
			for t := range ex {
				targets = append(targets, t)
			}
			sort.Slice(targets, func(i, j int) bool { return targets[i].Index < targets[j].Index })
			for _, t := range targets {
				for _, e := range ex[t] {
					route(e.from, e, t)
				}
			}
			continue
		}
		outs := fr.execBlock(b, edges, cutHeader && loop != nil && b == loop.head)
		for _, oe := range outs {
			route(b, oe.e, oe.to)
		}
	}
	return res
}

type outEdge struct {
	e  *Edge
	to *ssa.BasicBlock
}

func (w *World) rpoOf(fn *ssa.Function) []*ssa.BasicBlock {
	if w.rpoCache == nil {
		w.rpoCache = map[*ssa.Function][]*ssa.BasicBlock{}
	}
	if r, ok := w.rpoCache[fn]; ok {
		return r
	}
	r := rpo(fn)
	w.rpoCache[fn] = r
	return r
}

// execBlock executes one block. If phisPreset is true the phis of the block
// already have values (loop header of a cut loop).
func (fr *Frame) execBlock(b *ssa.BasicBlock, edges []*Edge, phisPreset bool) []outEdge {
	vc := fr.vc
	var conds []string
	var cs []condState
	for _, e := range edges {
		conds = append(conds, e.cond)
		cs = append(cs, condState{e.cond, e.st})
	}
	fr.reach = vc.define(fmt.Sprintf("%s_r%d%s", fr.prefix, b.Index, fr.inst), "Bool", or(conds...))
	fr.st = fr.mergeStates(cs)
	fr.block = b
	// overlay values from unrolled loops
	ov := map[ssa.Value]bool{}
	for _, e := range edges {
		for v := range e.over {
			ov[v] = true
		}
	}
	for v := range ov {
		var cur *Val
		for i := len(edges) - 1; i >= 0; i-- {
			ev := edges[i].over[v]
			if ev == nil {
				ev = fr.vals[v]
			}
			if ev == nil {
				continue
			}
			if cur == nil {
				cur = ev
			} else {
				cur = iteVal(vc, edges[i].cond, ev, cur)
			}
		}
		if cur != nil {
			fr.set(v, cur)
		}
	}
	// phis
	nphi := 0
	for _, ins := range b.Instrs {
		phi, ok := ins.(*ssa.Phi)
		if !ok {
			break
		}
		if !phisPreset {
			var cur *Val
			for i := len(edges) - 1; i >= 0; i-- {
				if nphi >= len(edges[i].phi) {
					continue
				}
				pv := edges[i].phi[nphi]
				if cur == nil {
					cur = pv
				} else {
					cur = iteVal(vc, edges[i].cond, pv, cur)
				}
			}
			fr.set(phi, cur)
		}
		nphi++
	}
	for _, ins := range b.Instrs[nphi:] {
		switch ins := ins.(type) {
		case *ssa.If:
			c := fr.get(ins.Cond).L[0]
			c = vc.define(fmt.Sprintf("%s_c%d%s", fr.prefix, b.Index, fr.inst), "Bool", c)
			return []outEdge{
				{fr.mkEdge(b, b.Succs[0], and(fr.reach, c)), b.Succs[0]},
				{fr.mkEdge(b, b.Succs[1], and(fr.reach, not(c))), b.Succs[1]},
			}
		case *ssa.Jump:
			return []outEdge{{fr.mkEdge(b, b.Succs[0], fr.reach), b.Succs[0]}}
		case *ssa.Return:
			fr.doReturn(ins)
			return nil
		case *ssa.Panic:
			vc.oblige(fr, ins, "panic", 0, tFalse, "explicit panic reachable")
			return nil
		default:
			fr.execInstr(ins)
		}
	}
	return nil
}

func (fr *Frame) mkEdge(from, to *ssa.BasicBlock, cond string) *Edge {
	e := &Edge{from: from, cond: cond, st: fr.st}
	idx := -1
	// a block may appear twice as predecessor (both branches to same target)
	for i, p := range to.Preds {
		if p == from {
			idx = i
			break
		}
	}
	for _, ins := range to.Instrs {
		phi, ok := ins.(*ssa.Phi)
		if !ok {
			break
		}
		e.phi = append(e.phi, fr.get(phi.Edges[idx]))
	}
	return e
}

func (fr *Frame) doReturn(ins *ssa.Return) {
	var res *Val
	switch len(ins.Results) {
	case 0:
	case 1:
		res = fr.get(ins.Results[0])
	default:
		res = &Val{T: fr.fn.Signature.Results()}
		for _, r := range ins.Results {
			res.Tup = append(res.Tup, fr.get(r))
		}
	}
	if fr.isRoot && fr.contract != nil {
		fr.checkEnsures(ins, res)
	}
	fr.rets = append(fr.rets, retEdge{cond: fr.reach, st: fr.st, res: res, ins: ins})
}

// ---- loops ----

func (fr *Frame) execLoop(l *Loop, in []*Edge) map[*ssa.BasicBlock][]*Edge {
	if n, it := fr.unrollCount(l, in); n >= 0 {
		return fr.execLoopUnrolled(l, in, n, it)
	}
	if k := fr.vc.w.unroll; k > 0 {
		return fr.execLoopUnrolled(l, in, k, nil)
	}
	return fr.execLoopCut(l, in)
}

// unrollCount decides whether the loop is a range over a literal map with a
// known number of entries.
func (fr *Frame) unrollCount(l *Loop, in []*Edge) (int, *SymIter) {
	for _, ins := range l.head.Instrs {
		nx, ok := ins.(*ssa.Next)
		if !ok {
			continue
		}
		it := fr.vals[nx.Iter]
		if it == nil || it.Iter == nil || it.Iter.m == nil || it.Iter.m.opaque {
			return -1, nil
		}
		return len(it.Iter.m.keys), it.Iter
	}
	return -1, nil
}

func (fr *Frame) execLoopUnrolled(l *Loop, in []*Edge, n int, it *SymIter) map[*ssa.BasicBlock][]*Edge {
	exits := map[*ssa.BasicBlock][]*Edge{}
	edges := in
	saveInst := fr.inst
	liveOut := loopLiveOut(l)
	for k := 0; k <= n; k++ {
		if len(edges) == 0 {
			break
		}
		fr.inst = fmt.Sprintf("%s_u%d", saveInst, k)
		if it != nil {
			fr.iterPos[it] = k
		}
		rr := fr.execRegion(l.blocks, l.head, edges, l, false)
		if it == nil && k == n {
			// bounded unrolling (replay aid): remember how the last iteration loops on
			var cs []string
			for _, e := range rr.latches {
				cs = append(cs, e.cond)
			}
			key := fmt.Sprintf("%s/loop%d", shortFuncName(fr.fn.String()), l.ord)
			lc := fr.vc.define("latch", "Bool", or(cs...))
			fr.vc.items = append(fr.vc.items, Item{Ob: &Obligation{Name: key + "/replay-latch", Kind: "replay-latch", Fn: key, Reach: lc, Goal: tFalse}})
		}
		for t, es := range rr.exits {
			for _, e := range es {
				e.over = map[ssa.Value]*Val{}
				for _, v := range liveOut {
					if val, ok := fr.vals[v]; ok {
						e.over[v] = val
					}
				}
				exits[t] = append(exits[t], e)
			}
		}
		edges = rr.latches
	}
	fr.inst = saveInst
	if it != nil {
		delete(fr.iterPos, it)
	}
	return exits
}

// loopLiveOut lists values defined inside the loop and used outside it.
func loopLiveOut(l *Loop) []ssa.Value {
	var out []ssa.Value
	for b := range l.blocks {
		for _, ins := range b.Instrs {
			v, ok := ins.(ssa.Value)
			if !ok {
				continue
			}
			refs := v.Referrers()
			if refs == nil {
				continue
			}
			for _, r := range *refs {
				if r.Block() != nil && !l.blocks[r.Block()] {
					out = append(out, v)
					break
				}
			}
		}
	}
	return out
}

func (fr *Frame) execLoopCut(l *Loop, in []*Edge) map[*ssa.BasicBlock][]*Edge {
	vc := fr.vc
	var cs []condState
	var conds []string
	for _, e := range in {
		cs = append(cs, condState{e.cond, e.st})
		conds = append(conds, e.cond)
	}
	reachIn := vc.define(fmt.Sprintf("%s_loop%d_in", fr.prefix, l.ord), "Bool", or(conds...))
	pre := fr.mergeStates(cs)
	// phi entry values
	var phis []*ssa.Phi
	for _, ins := range l.head.Instrs {
		if phi, ok := ins.(*ssa.Phi); ok {
			phis = append(phis, phi)
		} else {
			break
		}
	}
	entryPhi := make([]*Val, len(phis))
	for k := range phis {
		var cur *Val
		for i := len(in) - 1; i >= 0; i-- {
			pv := in[i].phi[k]
			if cur == nil {
				cur = pv
			} else {
				cur = iteVal(vc, in[i].cond, pv, cur)
			}
		}
		entryPhi[k] = cur
	}
	if fr.loopEntryVals == nil {
		fr.loopEntryVals = map[*Loop][]*Val{}
	}
	fr.loopEntryVals[l] = entryPhi
	var lc *LoopContract
	if c := fr.vc.w.contracts[shortFuncName(fr.fn.String())]; c != nil {
		lc = c.Loops[l.ord]
	}
	fname := shortFuncName(fr.fn.String())
	if c := fr.vc.w.contracts[fname]; c != nil {
		saveLets := vc.curLets
		vc.curLets = c.Lets
		defer func() { vc.curLets = saveLets }()
	}
	// range loops: the hidden index never drops below -1 (checked like any invariant)
	for _, phi := range phis {
		if phi.Comment == "rangeindex" {
			n, _ := parseSpec("-1 <= rangeindex")
			nlc := &LoopContract{Invariants: []Clause{{Expr: n, Src: "-1 <= rangeindex (automatic for range loops)"}}}
			if lc != nil {
				nlc.Invariants = append(nlc.Invariants, lc.Invariants...)
				nlc.Decreases = lc.Decreases
				nlc.Assigns = lc.Assigns
				nlc.Latch = lc.Latch
			}
			lc = nlc
			break
		}
	}

	// clauses the root function states about this loop of an inlined callee (invariants, latches, and an
	// assigns clause that replaces the coarse frame inherited from the root's own assigns clause)
	if root := fr.rootFrame(); root != nil && root != fr && root.contract != nil {
		for _, wl := range []*LoopContract{root.contract.Within[fmt.Sprintf("%s#%d", fname, l.ord)], root.contract.Within[fmt.Sprintf("%s@%d#%d", fname, fr.site, l.ord)]} {
			if wl == nil {
				continue
			}
			nlc := &LoopContract{}
			if lc != nil {
				*nlc = *lc
			}
			nlc.Invariants = append(append([]Clause{}, nlc.Invariants...), wl.Invariants...)
			nlc.Latch = append(append([]Clause{}, nlc.Latch...), wl.Latch...)
			var act []Clause
			for _, a := range wl.Assigns {
				if clauseActive(a.Tags, vc.w.prop) {
					act = append(act, a)
				}
			}
			if len(act) > 0 {
				nlc.Assigns = append(append([]Clause{}, nlc.Assigns...), act...)
			}
			lc = nlc
		}
	}

	var loopLocs []assignLoc
	var rootInvs []Clause
	frameWm := pre.wm
	if lc != nil && len(lc.Assigns) > 0 {
		save := fr.st
		fr.st = pre
		asc := fr.loopScope(l, phis, entryPhi)
		for _, a := range lc.Assigns {
			if a.Mixed {
				asc = fr.mixedScope(asc)
				// the frame speaks about what existed when the inlined function was entered (the automatic
				// list invariants below compare with that state)
				frameWm = fr.entry.wm
				break
			}
		}
		loopLocs, _, _ = fr.assignLocs(lc.Assigns, asc, pre)
		// a list named by capelems(...) in a within-assigns clause is still the list the inlined function was
		// entered with, or was reallocated since (checked like any invariant)
		for _, a := range lc.Assigns {
			n := a.Expr
			if a.Mixed && n.Kind == "call" && n.Args[0].Kind == "ident" && n.Args[0].Name == "capelems" {
				x := n.Args[1].Src
				if x == "" {
					x = nodeText(n.Args[1])
				}
				src := fmt.Sprintf("base(%s) == 0 || (base(%s) == old(base(%s)) && cap(%s) == old(cap(%s))) || base(%s) >= old($wm)", x, x, x, x, x, x)
				if inv, err := parseSpec(src); err == nil {
					nlc := &LoopContract{}
					*nlc = *lc
					nlc.Invariants = append(append([]Clause{}, nlc.Invariants...), Clause{Expr: inv, Src: src + " (automatic, from the loop's assigns clause)", Mixed: true, Tags: a.Tags})
					lc = nlc
				}
			}
		}
		fr.st = save
	} else if root := fr.rootFrame(); root != nil && root.contract != nil && len(root.contract.Assigns) > 0 {
		// no loop frame given: the loop may modify at most what the verified
		// function as a whole may modify (its assigns clause, evaluated at entry)
		if locs, all, _ := root.rootAssignLocs(); !all {
			loopLocs = locs
			frameWm = root.entry.wm
			nlc := &LoopContract{}
			if lc != nil {
				*nlc = *lc
			}
			lc = nlc
			// a list that may be appended to in place is still the entry list or
			// was reallocated since the function was entered
			for _, a := range root.contract.Assigns {
				n := a.Expr
				if n.Kind == "call" && n.Args[0].Kind == "ident" && n.Args[0].Name == "capelems" {
					x := n.Args[1].Src
					if x == "" {
						x = nodeText(n.Args[1])
					}
					src := fmt.Sprintf("base(%s) == 0 || (base(%s) == old(base(%s)) && cap(%s) == old(cap(%s))) || base(%s) >= old($wm)", x, x, x, x, x, x)
					if inv, err := parseSpec(src); err == nil {
						rootInvs = append(rootInvs, Clause{Expr: inv, Src: src + " (automatic, from the function's assigns clause)"})
					}
				}
			}
		}
	}
	if root := fr.rootFrame(); root != nil && root.contract != nil && len(root.contract.GlobalInvs) > 0 {
		nlc := &LoopContract{}
		if lc != nil {
			*nlc = *lc
		}
		lc = nlc
		rootInvs = append(rootInvs, root.contract.GlobalInvs...)
	}
	for _, ri := range rootInvs {
		ri.RootScope = true
		lc.Invariants = append(lc.Invariants, ri)
	}
	// 1. invariant on entry
	fr.reach, fr.st = reachIn, pre
	if lc != nil {
		scope := fr.loopScope(l, phis, entryPhi)
		for i, inv := range lc.Invariants {
			if !clauseActive(inv.Tags, vc.w.prop) {
				continue
			}
			sc, old := fr.invCtx(inv, scope)
			t := fr.evalGoal(inv.Expr, sc, pre, old)
			vc.obligeNamed(fr, fmt.Sprintf("%s/loop%d/inv-entry/%d", fname, l.ord, i), "inv-entry", t, inv.Tags, inv.Src)
		}
	}

	// 2. discover modified heap keys (trial runs, rolled back)
	mod := map[string]bool{}
	modGhost := map[string]bool{}
	wmChanged := false
	var frames map[string][]string
	startName := vc.nname
	for round := 0; round < 4; round++ {
		vc.storeLog = nil
		vc.allocLog = map[string]bool{}
		saveLog := vc.logStores
		vc.logStores = true
		snapItems, snapSeen, snapUnsup := len(vc.items), copyCounts(vc.obSeen), len(vc.unsup)
		snapRets, snapClos, snapNotes := len(fr.rets), len(vc.closures), len(vc.notes)
		snapHyps := len(vc.hyps)
		snapVals := fr.vals
		fr.vals = map[ssa.Value]*Val{}
		for k, v := range snapVals {
			fr.vals[k] = v
		}
		head := fr.havocHead(l, phis, pre, mod, modGhost, wmChanged, nil, reachIn)
		rr := fr.execRegion(l.blocks, l.head, []*Edge{head}, l, true)
		grew := false
		check := func(st *State) {
			for k, v := range st.heap {
				if head.st.heap[k] != v && !mod[k] {
					if _, had := head.st.heap[k]; had || v != k+"_0" {
						mod[k] = true
						grew = true
					}
				}
			}
			for k, v := range st.ghost {
				if head.st.ghost[k] != v && !modGhost[k] {
					modGhost[k] = true
					grew = true
				}
			}
			if st.wm != head.st.wm && !wmChanged {
				wmChanged = true
				grew = true
			}
		}
		for _, e := range rr.latches {
			check(e.st)
		}
		vc.items = vc.items[:snapItems]
		vc.dropAxiomsFrom(snapItems)
		vc.obSeen = snapSeen
		vc.unsup = vc.unsup[:snapUnsup]
		fr.vals = snapVals
		fr.rets = fr.rets[:snapRets]
		vc.closures = vc.closures[:snapClos]
		vc.notes = vc.notes[:snapNotes]
		vc.hyps = vc.hyps[:snapHyps]
		vc.logStores = saveLog
		if !grew {
			frames = vc.inferLoopFrame(vc.storeLog, vc.allocLog, startName+1)
			break
		}
	}
	if saveLogOuter := vc.logStores; saveLogOuter {
		// nested inside another loop's trial: keep logging for the outer loop
		_ = saveLogOuter
	}

	// 2a. peel (ghost harnesses only): the first evaluation of the header runs on the entry state. Where it leaves
	// the loop at once, execution continues with the entry state itself (zero iterations change nothing);
	// the arbitrary-iteration state below then stands for loops that are entered at least once. The header's own
	// obligations are recorded for this first evaluation too (the arbitrary-iteration run only covers entered loops).
	var peeled []outEdge
	if isHarnessRoot(fr) && !vc.logStores {
		if _, isIf := l.head.Instrs[len(l.head.Instrs)-1].(*ssa.If); isIf {
			snapVals := fr.vals
			fr.vals = map[ssa.Value]*Val{}
			for k, v := range snapVals {
				fr.vals[k] = v
			}
			outs := fr.execBlock(l.head, in, false)
			entered := []string{}
			for _, oe := range outs {
				if l.blocks[oe.to] {
					entered = append(entered, oe.e.cond)
				} else {
					peeled = append(peeled, oe)
				}
			}
			fr.vals = snapVals
			if len(peeled) > 0 {
				reachIn = vc.define(fmt.Sprintf("%s_loop%d_entered", fr.prefix, l.ord), "Bool", or(entered...))
			}
		}
	}

	// 3. real run
	fr.reach, fr.st = reachIn, pre
	head := fr.havocHead(l, phis, pre, mod, modGhost, wmChanged, lc, reachIn)
	for _, k := range sortedKeys(mod) {
		if ex, ok := frames[k]; ok {
			nw, old, wm := head.st.heap[k], vc.arr(pre, leafByKey[k]), pre.wm
			exc := ex
			vc.addAxiomArr(k, nw, old, frameAxiom(nw, old, wm, exc), func(idx string) (string, []string) {
				cs := []string{lt(idx, wm)}
				for _, e := range exc {
					cs = append(cs, neq(idx, e))
				}
				return imp(and(cs...), eq(sel(nw, idx), sel(old, idx))), nil
			})
		}
	}
	if len(loopLocs) > 0 {
		for _, k := range sortedKeys(mod) {
			if _, ok := frames[k]; ok {
				continue // already framed exactly by inference
			}
			nw, old, wm := head.st.heap[k], vc.arr(pre, leafByKey[k]), frameWm
			inside := locsCover(loopLocs, k)
			vc.addAxiomArr(k, nw, old, fmt.Sprintf("(forall ((a Int)) (! (=> %s (= (select %s a) (select %s a))) :pattern ((select %s a))))",
				and(lt("a", wm), not(inside("a"))), nw, old, nw), func(idx string) (string, []string) {
				return imp(and(lt(idx, wm), not(inside(idx))), eq(sel(nw, idx), sel(old, idx))), nil
			})
		}
	}
	headVals := make([]*Val, len(phis))
	for k, phi := range phis {
		headVals[k] = fr.vals[phi]
	}
	// quantified hypotheses (preconditions, earlier invariants) are instantiated at the loop counters
	if vc.specDepth == 0 {
		for k, phi := range phis {
			if lf, ok := numLeaf(phi.Type()); ok && lf.Kind == lkInt && headVals[k] != nil {
				for _, h := range vc.hyps {
					h(headVals[k].L[0])
					h(add(headVals[k].L[0], "1"))
				}
			}
		}
	}
	var variantAtHead []string
	if lc != nil {
		scope := fr.loopScope(l, phis, headVals)
		fr.reach, fr.st = reachIn, head.st
		for _, inv := range lc.Invariants {
			if !clauseActive(inv.Tags, vc.w.prop) {
				continue
			}
			sc, old := fr.invCtx(inv, scope)
			vc.assume(imp(reachIn, fr.evalBool(inv.Expr, sc, head.st, old)))
		}
		for _, d := range lc.Decreases {
			variantAtHead = append(variantAtHead, vc.define(fr.prefix+"_variant", "Int", fr.evalInt(d.Expr, scope, head.st, fr.entry)))
		}
	}
	rr := fr.execRegion(l.blocks, l.head, []*Edge{head}, l, true)
	// 4. latches: invariant preserved, variant decreases
	for li, e := range rr.latches {
		fr.reach, fr.st = e.cond, e.st
		if lc == nil {
			continue
		}
		scope := fr.loopScope(l, phis, e.phi)
		for i, inv := range lc.Invariants {
			if !clauseActive(inv.Tags, vc.w.prop) {
				continue
			}
			sc, old := fr.invCtx(inv, scope)
			t := fr.evalGoal(inv.Expr, sc, e.st, old)
			vc.obligeNamed(fr, fmt.Sprintf("%s/loop%d/inv-preserved/%d@%d", fname, l.ord, i, li), "inv-preserved", t, inv.Tags, inv.Src)
		}
		// head_<name>: the value a loop variable had at the start of this iteration (for latch clauses)
		if len(lc.Latch) > 0 {
			ls := map[string]*Val{}
			for k, v := range scope {
				ls[k] = v
			}
			for k, phi := range phis {
				if phi.Comment != "" && k < len(headVals) && headVals[k] != nil {
					ls["head_"+phi.Comment] = headVals[k]
				}
			}
			scope = ls
		}
		for i, lt := range lc.Latch {
			if !clauseActive(lt.Tags, vc.w.prop) {
				continue
			}
			// in a latch clause old(e) is e at the start of this iteration
			lsc := scope
			if lt.Mixed {
				lsc = fr.mixedScope(scope)
			}
			t := fr.evalGoal(lt.Expr, lsc, e.st, head.st)
			lname := fmt.Sprint(i)
			if lt.Label != "" {
				lname = lt.Label
			}
			vc.obligeNamed(fr, fmt.Sprintf("%s/loop%d/latch/%s@%d", fname, l.ord, lname, li), "latch", t, lt.Tags, lt.Src)
		}
		if len(loopLocs) > 0 {
			for _, k := range sortedKeys(mod) {
				if _, ok := frames[k]; ok {
					continue
				}
				lf := leafByKey[k]
				a := vc.fresh("lf_a", "Int")
				inside := locsCover(loopLocs, k)
				now := vc.read(e.st, lf, a)
				was := vc.read(head.st, lf, a)
				vc.obligeNamed(fr, fmt.Sprintf("%s/loop%d/frame/%s@%d", fname, l.ord, k, li), "loop-frame",
					imp(and(le("1", a), lt(a, frameWm), not(inside(a))), eq(now, was)), nil,
					"one iteration changes nothing outside the loop's assigns clause ("+strings.TrimPrefix(k, "H_")+")")
			}
		}
		for i, d := range lc.Decreases {
			now := fr.evalInt(d.Expr, scope, e.st, fr.entry)
			vc.obligeNamed(fr, fmt.Sprintf("%s/loop%d/decreases/%d@%d", fname, l.ord, i, li), "decreases",
				and(le("0", variantAtHead[i]), lt(now, variantAtHead[i])), d.Tags, d.Src)
		}
	}
	if lc == nil || len(lc.Decreases) == 0 {
		vc.notes = append(vc.notes, fmt.Sprintf("loop %d of %s has no variant (termination not proved)", l.ord, fname))
	}
	for _, oe := range peeled {
		rr.exits[oe.to] = append([]*Edge{oe.e}, rr.exits[oe.to]...)
	}
	return rr.exits
}

// isHarnessRoot: loop headers are peeled once (execLoopCut, step 2a) while verifying a ghost harness
// (rt*: encode then decode; dec*: decode under a premise on the frame), never in the library's own functions.
func isHarnessRoot(fr *Frame) bool {
	root := fr.rootFrame()
	if root == nil || root.fn.Signature.Recv() != nil {
		return false
	}
	n := root.fn.Name()
	return strings.HasPrefix(n, "rt") || strings.HasPrefix(n, "dec")
}

func copyCounts(m map[string]int) map[string]int {
	n := make(map[string]int, len(m))
	for k, v := range m {
		n[k] = v
	}
	return n
}

// havocHead builds the state at an arbitrary iteration of the loop.
func (fr *Frame) havocHead(l *Loop, phis []*ssa.Phi, pre *State, mod, modGhost map[string]bool, wmChanged bool, lc *LoopContract, reachIn string) *Edge {
	vc := fr.vc
	st := pre.clone()
	trial := lc == nil
	var havoced []string
	for _, k := range sortedKeys(mod) {
		lf := leafByKey[k]
		old := vc.arr(pre, lf)
		st.heap[k] = vc.fresh(k, "(Array Int "+lf.Sort+")")
		vc.staticFrame(k, st.heap[k], old)
		havoced = append(havoced, k)
	}
	for _, k := range sortedKeys(modGhost) {
		st.ghost[k] = vc.fresh("g_"+k, ghostSort(k))
	}
	if wmChanged {
		st.wm = vc.fresh(fr.prefix+"_wm", "Int")
		vc.assume(le(pre.wm, st.wm))
	}
	_ = trial
	for _, k := range havoced {
		st.epoch[k] = [2]string{st.heap[k], st.wm}
	}
	fr.st = st
	for _, phi := range phis {
		v := fr.havoc(phi.Type(), phi.Name())
		fr.vals[phi] = v
	}
	return &Edge{from: nil, cond: reachIn, st: st}
}

// loopScope maps source-level variable names to values at the loop header.
func (fr *Frame) loopScope(l *Loop, phis []*ssa.Phi, phiVals []*Val) map[string]*Val {
	scope := map[string]*Val{}
	for i, phi := range phis {
		if phi.Comment != "" && i < len(phiVals) && phiVals[i] != nil {
			scope[phi.Comment] = phiVals[i]
		}
		// entry_<name>: the value the variable had when the loop was entered
		if ev := fr.loopEntryVals[l]; phi.Comment != "" && i < len(ev) && ev[i] != nil {
			scope["entry_"+phi.Comment] = ev[i]
		}
	}
	return scope
}

// locsCover returns a predicate "address a of heap key k lies in one of the locations".
func locsCover(locs []assignLoc, k string) func(a string) string {
	return func(a string) string {
		var cs []string
		for _, loc := range locs {
			if loc.cell {
				for _, l := range flatten(loc.t) {
					if l.Key == k {
						c := eq(a, add(loc.addr, intLit(int64(l.Slot))))
						if loc.cond != "" {
							c = and(loc.cond, c)
						}
						cs = append(cs, c)
					}
				}
				continue
			}
			for _, l := range flatten(loc.elemT) {
				if l.Key == k {
					cs = append(cs, and(le(loc.lo, a), lt(a, loc.hi)))
					break
				}
			}
		}
		return or(cs...)
	}
}

func (fr *Frame) rootFrame() *Frame {
	r := fr
	for r.parent != nil {
		r = r.parent
	}
	if r.isRoot {
		return r
	}
	return nil
}

// rootAssignLocs evaluates the root function's assigns clauses at its entry.
func (fr *Frame) rootAssignLocs() ([]assignLoc, bool, []string) {
	if fr.rootLocsDone {
		return fr.rootLocs, fr.rootLocsAll, nil
	}
	scope := map[string]*Val{}
	for k, v := range fr.params {
		scope[k] = v
	}
	saveLets := fr.vc.curLets
	fr.vc.curLets = fr.contract.Lets
	saveSt, saveReach := fr.st, fr.reach
	fr.st = fr.entry
	locs, all, g := fr.assignLocs(fr.contract.Assigns, scope, fr.entry)
	fr.st, fr.reach = saveSt, saveReach
	fr.vc.curLets = saveLets
	fr.rootLocs, fr.rootLocsAll, fr.rootLocsDone = locs, all, true
	return locs, all, g
}

// invCtx selects the evaluation context of a loop invariant: the loop's own
// scope, or (for invariants derived from the root function's assigns clause)
// the root function's parameters and entry state.
func (fr *Frame) invCtx(inv Clause, scope map[string]*Val) (map[string]*Val, *State) {
	if inv.Mixed {
		return fr.mixedScope(scope), fr.entry
	}
	if !inv.RootScope {
		return scope, fr.entry
	}
	root := fr.rootFrame()
	sc := map[string]*Val{}
	for k, v := range root.params {
		sc[k] = v
	}
	return sc, root.entry
}

// mixedScope: the callee's loop scope plus the root function's parameters as
// root_<name> and its receiver as self.
func (fr *Frame) mixedScope(scope map[string]*Val) map[string]*Val {
	root := fr.rootFrame()
	sc := map[string]*Val{}
	for k, v := range scope {
		sc[k] = v
	}
	if root != nil {
		for k, v := range root.params {
			sc["root_"+k] = v
		}
		if len(root.fn.Params) > 0 && root.fn.Signature.Recv() != nil {
			sc["self"] = root.vals[root.fn.Params[0]]
		}
	}
	return sc
}
