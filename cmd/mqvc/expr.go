package main

// Evaluation of contract expressions to SMT terms in the context of a frame.

import (
	"fmt"
	"go/types"
	"strings"

	"golang.org/x/tools/go/ssa"
)

type evalEnv struct {
	fr    *Frame
	scope map[string]*Val
	st    *State
	old   *State
	bound map[string]string // quantified variables
	pol   int               // polarity with which the formula is asserted: +1 assumption, -1 negated goal, 0 unknown
	guard string            // range conditions of enclosing quantifiers already instantiated at ground terms
}

type evalError struct{ msg string }

// evalGoal evaluates a formula that will be proved (asserted negated):
// universally quantified variables in positive positions become fresh
// constants, so no quantifier reaches the solver.
func (fr *Frame) evalGoal(n *Node, scope map[string]*Val, st, old *State) string {
	v := fr.evalNodePol(n, scope, st, old, -1)
	if v == nil || len(v.L) != 1 {
		fr.vc.unsupported(fr, "contract expression is not boolean: "+n.Src)
		return tFalse
	}
	return v.L[0]
}

func (fr *Frame) evalBool(n *Node, scope map[string]*Val, st, old *State) string {
	v := fr.evalNode(n, scope, st, old)
	if v == nil || len(v.L) != 1 {
		fr.vc.unsupported(fr, "contract expression is not boolean: "+n.Src)
		return tFalse
	}
	return v.L[0]
}

func (fr *Frame) evalInt(n *Node, scope map[string]*Val, st, old *State) string {
	v := fr.evalNode(n, scope, st, old)
	if v == nil || len(v.L) != 1 {
		fr.vc.unsupported(fr, "contract expression is not an integer: "+n.Src)
		return "0"
	}
	if v.T != nil {
		if l, ok := numLeaf(v.T); ok {
			return leafToInt(l, v.L[0])
		}
	}
	return v.L[0]
}

func (fr *Frame) evalNode(n *Node, scope map[string]*Val, st, old *State) (res *Val) {
	return fr.evalNodePol(n, scope, st, old, +1)
}

func (fr *Frame) evalNodePol(n *Node, scope map[string]*Val, st, old *State, pol int) (res *Val) {
	env := &evalEnv{fr: fr, scope: scope, st: st, old: old, bound: map[string]string{}, pol: pol}
	defer func() {
		if r := recover(); r != nil {
			if e, ok := r.(evalError); ok {
				fr.vc.unsupported(fr, "contract: "+e.msg+" in `"+n.Src+"`")
				res = nil
				return
			}
			panic(r)
		}
	}()
	saveReach, saveSt := fr.reach, fr.st
	fr.vc.specDepth++
	defer func() { fr.vc.specDepth--; fr.reach, fr.st = saveReach, saveSt }()
	return env.eval(n)
}

func (e *evalEnv) fail(format string, a ...interface{}) {
	panic(evalError{fmt.Sprintf(format, a...)})
}

var untypedInt = types.Typ[types.UntypedInt]
var boolT = types.Typ[types.Bool]

func bval(t string) *Val { return &Val{T: boolT, L: []string{t}} }

func (e *evalEnv) lookup(name string) *Val {
	if v, ok := e.bound[name]; ok {
		return &Val{T: types.Typ[types.Int], L: []string{v}}
	}
	if v, ok := e.scope[name]; ok && v != nil {
		return v
	}
	fr := e.fr
	if n, ok := fr.vc.curLets[name]; ok {
		return e.eval(n)
	}
	if v, ok := fr.params[name]; ok {
		return v
	}
	if strings.HasPrefix(name, "$") {
		if t, ok := e.st.ghost[name]; ok {
			return &Val{T: types.Typ[types.Int], L: []string{t}}
		}
		if name == "$N" {
			fr.vc.streamConsts()
			return &Val{T: types.Typ[types.Int], L: []string{"g_N"}}
		}
		if name == "$wm" {
			return &Val{T: types.Typ[types.Int], L: []string{e.st.wm}}
		}
		return &Val{T: types.Typ[types.Int], L: []string{fr.vc.ghostInit(name)}}
	}
	switch name {
	case "true":
		return bval(tTrue)
	case "false":
		return bval(tFalse)
	case "nil":
		return &Val{T: types.Typ[types.UntypedNil], L: []string{"0"}}
	}
	// local variable of the function: alloc'd cell or SSA value named by a DebugRef
	if v := fr.localByName(name, e.st); v != nil {
		return v
	}
	// package-level constant or variable
	if obj := fr.vc.w.pkg.Pkg.Scope().Lookup(name); obj != nil {
		switch o := obj.(type) {
		case *types.Const:
			c := ssa.NewConst(o.Val(), o.Type())
			return fr.constVal(c)
		case *types.Var:
			if g, ok := fr.vc.w.pkg.Members[name].(*ssa.Global); ok {
				addr := intLit(fr.vc.w.globalAddr(g))
				return e.loadAt(addr, o.Type())
			}
		}
	}
	e.fail("unknown name %s", name)
	return nil
}

func (vc *VC) ghostInit(name string) string {
	n := "g0_" + sanitize(name)
	if !vc.declared[n] {
		vc.declared[n] = true
		vc.decls = append(vc.decls, fmt.Sprintf("(declare-const %s Int)", n))
	}
	return n
}

// localByName finds a source-level local variable of the frame's function.
func (fr *Frame) localByName(name string, st *State) *Val {
	var best ssa.Value
	bestAddr := false
	for _, b := range fr.fn.Blocks {
		for _, ins := range b.Instrs {
			switch ins := ins.(type) {
			case *ssa.Alloc:
				if ins.Comment == name {
					if _, ok := fr.vals[ins]; ok {
						best, bestAddr = ins, true
					}
				}
			case *ssa.DebugRef:
				if id, ok := ins.Expr.(interface{ String() string }); ok && id.String() == name && best == nil {
					if _, ok := fr.vals[ins.X]; ok {
						best, bestAddr = ins.X, ins.IsAddr
					}
				}
			}
		}
	}
	if best == nil {
		return nil
	}
	v := fr.vals[best]
	if bestAddr {
		save := fr.st
		fr.st = st
		r := fr.load(v.L[0], elemOf(best.Type()))
		fr.st = save
		return r
	}
	return v
}

func (e *evalEnv) loadAt(addr string, t types.Type) *Val {
	save, saveReach := e.fr.st, e.fr.reach
	e.fr.st = e.st
	v := e.fr.load(addr, t)
	if e.fr.vc.noDefine == 0 && e.boundGround() {
		// Go's type-safety invariant holds for every value read from the heap
		e.fr.reach = tTrue
		e.fr.loadAssume(addr, t, v)
	}
	e.fr.st, e.fr.reach = save, saveReach
	return v
}

func (e *evalEnv) eval(n *Node) *Val {
	switch n.Kind {
	case "paren":
		return e.eval(n.Args[0])
	case "num":
		s, err := parseNum(n.Name)
		if err != nil {
			e.fail("bad number %s", n.Name)
		}
		return &Val{T: untypedInt, L: []string{s}}
	case "ident":
		return e.lookup(n.Name)
	case "unary":
		if n.Op == "!" {
			e.pol = -e.pol
			x := e.eval(n.Args[0])
			e.pol = -e.pol
			return bval(not(x.L[0]))
		}
		return e.unary(n)
	case "binary":
		return e.binary(n)
	case "cond":
		save := e.pol
		e.pol = 0
		c := e.eval(n.Args[0])
		e.pol = save
		a, b := e.eval(n.Args[1]), e.eval(n.Args[2])
		a, b = e.coerce(a, b)
		return iteVal(e.fr.vc, c.L[0], a, b)
	case "forall", "exists":
		save := e.pol
		e.pol = 0
		lo := e.intOf(e.eval(n.Args[0]))
		hi := e.intOf(e.eval(n.Args[1]))
		e.pol = save
		vc := e.fr.vc
		skolem := (n.Kind == "forall" && e.pol == -1) || (n.Kind == "exists" && e.pol == +1)
		if skolem {
			// the quantifier disappears: the variable is a fresh arbitrary constant
			k := vc.fresh("sk_"+n.Name, "Int")
			// quantified hypotheses assumed earlier are instantiated at this constant
			for _, h := range vc.hyps {
				h(k)
			}
			e.bound[n.Name] = k
			body := e.eval(n.Args[2]).L[0]
			delete(e.bound, n.Name)
			rng := and(le(lo, k), lt(k, hi))
			if n.Kind == "forall" {
				return bval(imp(rng, body))
			}
			return bval(and(rng, body))
		}
		// a real quantifier: the body must be a closed term (no named abbreviations)
		if n.Kind == "forall" && e.pol == +1 && vc.noDefine == 0 && e.boundGround() {
			// remember the hypothesis so that it can be instantiated at the skolem
			// constants of later goals (the quantifier-free pass needs the instances)
			hn, hscope, hst, hold, hfr := n, e.scope, e.st, e.old, e.fr
			hlets := vc.curLets
			hbound := map[string]string{}
			for k, v := range e.bound {
				hbound[k] = v
			}
			hguard := e.guard
			vc.hyps = append(vc.hyps, func(at string) {
				saveLets := vc.curLets
				vc.curLets = hlets
				saveReach, saveSt := hfr.reach, hfr.st
				vc.specDepth++
				b2 := map[string]string{hn.Name: at}
				for k, v := range hbound {
					b2[k] = v
				}
				env := &evalEnv{fr: hfr, scope: hscope, st: hst, old: hold, bound: b2, pol: +1, guard: hguard}
				func() {
					defer func() {
						if r := recover(); r != nil {
							if _, ok := r.(evalError); !ok {
								panic(r)
							}
						}
					}()
					env.pol = 0
					l := env.intOf(env.eval(hn.Args[0]))
					h := env.intOf(env.eval(hn.Args[1]))
					env.pol = +1
					env.guard = and(hguard, le(l, at), lt(at, h))
					b := env.eval(hn.Args[2]).L[0]
					vc.cmd("(assert " + imp(env.guard, b) + ")")
				}()
				vc.specDepth--
				hfr.reach, hfr.st = saveReach, saveSt
				vc.curLets = saveLets
			})
			if isHarnessRoot(e.fr) {
				// harness roots: a callee's quantified postcondition about a short byte range (a length
				// field of one to four bytes) is also instantiated at its first four indices
				h := vc.hyps[len(vc.hyps)-1]
				for _, c := range []string{"0", "1", "2", "3"} {
					h(c)
				}
			}
		}
		k := vc.name("q_" + n.Name)
		e.bound[n.Name] = k
		vc.noDefine++
		body := e.eval(n.Args[2]).L[0]
		vc.noDefine--
		delete(e.bound, n.Name)
		rng := and(le(lo, k), lt(k, hi))
		var qt string
		if n.Kind == "forall" {
			qt = fmt.Sprintf("(forall ((%s Int)) %s)", k, imp(rng, body))
		} else {
			qt = fmt.Sprintf("(exists ((%s Int)) %s)", k, and(rng, body))
		}
		if vc.noDefine == 0 && len(e.bound) == 0 {
			// instantiation hints (valid for any term c): forall => body(c), body(c) => exists,
			// at the loop counters of the function
			for _, c := range e.fr.intCandidates() {
				e.bound[n.Name] = c
				save := e.pol
				e.pol = 0
				vc.noDefine++
				b := e.eval(n.Args[2]).L[0]
				vc.noDefine--
				e.pol = save
				delete(e.bound, n.Name)
				inst := and(le(lo, c), lt(c, hi))
				if n.Kind == "forall" {
					vc.cmd("(assert " + imp(qt, imp(inst, b)) + ")")
				} else {
					vc.cmd("(assert " + imp(and(inst, b), qt) + ")")
				}
			}
		}
		return bval(qt)
	case "sel":
		return e.sel(n)
	case "index":
		return e.index(n)
	case "slice":
		x := e.eval(n.Args[0])
		lo := "0"
		if n.Args[1] != nil {
			lo = e.intOf(e.eval(n.Args[1]))
		}
		if isSliceT(x.T) {
			hi := x.L[1]
			if n.Args[2] != nil {
				hi = e.intOf(e.eval(n.Args[2]))
			}
			es := intLit(int64(slots(elemOf(x.T))))
			return &Val{T: x.T, L: []string{add(x.L[0], mul(lo, es)), sub(hi, lo), sub(x.L[2], lo)}}
		}
		e.fail("slice of %v", x.T)
	case "call":
		return e.call(n)
	}
	e.fail("unsupported node %s", n.Kind)
	return nil
}

func (e *evalEnv) intOf(v *Val) string {
	if v.T != nil {
		if l, ok := numLeaf(v.T); ok {
			return leafToInt(l, v.L[0])
		}
	}
	return v.L[0]
}

// coerce brings an untyped constant to the type of the other operand.
func (e *evalEnv) coerce(a, b *Val) (*Val, *Val) {
	if a.T == untypedInt && b.T != untypedInt && b.T != nil {
		if l, ok := numLeaf(b.T); ok {
			return &Val{T: b.T, L: []string{intToLeaf(l, a.L[0])}}, b
		}
	}
	if b.T == untypedInt && a.T != untypedInt && a.T != nil {
		if l, ok := numLeaf(a.T); ok {
			return a, &Val{T: a.T, L: []string{intToLeaf(l, b.L[0])}}
		}
	}
	return a, b
}

func (e *evalEnv) unary(n *Node) *Val {
	x := e.eval(n.Args[0])
	switch n.Op {
	case "!":
		return bval(not(x.L[0]))
	case "-":
		if l, ok := numLeaf(x.T); ok && l.Kind == lkBV {
			return &Val{T: x.T, L: []string{sx("bvneg", x.L[0])}}
		}
		return &Val{T: x.T, L: []string{sub("0", x.L[0])}}
	case "^":
		if l, ok := numLeaf(x.T); ok && l.Kind == lkBV {
			return &Val{T: x.T, L: []string{sx("bvnot", x.L[0])}}
		}
		e.fail("^ on non bit-vector")
	case "*":
		if !isPtrT(x.T) {
			e.fail("dereference of non-pointer")
		}
		return e.loadAt(x.L[0], elemOf(x.T))
	case "&":
		a, t := e.addrOf(n.Args[0])
		return &Val{T: types.NewPointer(t), L: []string{a}}
	}
	e.fail("unary %s", n.Op)
	return nil
}

func (e *evalEnv) binary(n *Node) *Val {
	switch n.Op {
	case "==>":
		e.pol = -e.pol
		a := e.eval(n.Args[0]).L[0]
		e.pol = -e.pol
		b := e.eval(n.Args[1]).L[0]
		return bval(imp(a, b))
	case "<==>":
		save := e.pol
		e.pol = 0
		a := e.eval(n.Args[0]).L[0]
		b := e.eval(n.Args[1]).L[0]
		e.pol = save
		return bval(eq(a, b))
	case "&&":
		return bval(and(e.eval(n.Args[0]).L[0], e.eval(n.Args[1]).L[0]))
	case "||":
		return bval(or(e.eval(n.Args[0]).L[0], e.eval(n.Args[1]).L[0]))
	}
	savePol := e.pol
	e.pol = 0
	a, b := e.eval(n.Args[0]), e.eval(n.Args[1])
	e.pol = savePol
	a, b = e.coerce(a, b)
	switch n.Op {
	case "==", "!=":
		t := e.equal(a, b)
		if n.Op == "!=" {
			t = not(t)
		}
		return bval(t)
	}
	la, oka := numLeaf(orInt(a.T))
	lb, _ := numLeaf(orInt(b.T))
	if !oka {
		e.fail("operator %s on %v", n.Op, a.T)
	}
	x, y := a.L[0], b.L[0]
	rt := a.T
	if rt == untypedInt {
		rt = b.T
	}
	if la.Kind == lkBV && lb.Kind == lkBV && la.Width == lb.Width {
		u := !la.Signed
		m := map[string]string{"+": "bvadd", "-": "bvsub", "*": "bvmul", "&": "bvand", "|": "bvor", "^": "bvxor", "<<": "bvshl"}
		if op, ok := m[n.Op]; ok {
			return &Val{T: rt, L: []string{sx(op, x, y)}}
		}
		switch n.Op {
		case ">>":
			if u {
				return &Val{T: rt, L: []string{sx("bvlshr", x, y)}}
			}
			return &Val{T: rt, L: []string{sx("bvashr", x, y)}}
		case "&^":
			return &Val{T: rt, L: []string{sx("bvand", x, sx("bvnot", y))}}
		case "<", "<=", ">", ">=":
			ops := map[string][2]string{"<": {"bvult", "bvslt"}, "<=": {"bvule", "bvsle"}, ">": {"bvugt", "bvsgt"}, ">=": {"bvuge", "bvsge"}}[n.Op]
			if u {
				return bval(sx(ops[0], x, y))
			}
			return bval(sx(ops[1], x, y))
		case "/":
			if u {
				return &Val{T: rt, L: []string{sx("bvudiv", x, y)}}
			}
		case "%":
			if u {
				return &Val{T: rt, L: []string{sx("bvurem", x, y)}}
			}
		}
		e.fail("bit-vector operator %s", n.Op)
	}
	// mixed or mathematical: work on Ints
	x, y = leafToInt(la, x), leafToInt(lb, y)
	it := types.Typ[types.Int]
	switch n.Op {
	case "+":
		return &Val{T: it, L: []string{add(x, y)}}
	case "-":
		return &Val{T: it, L: []string{sub(x, y)}}
	case "*":
		return &Val{T: it, L: []string{mul(x, y)}}
	case "/":
		return &Val{T: it, L: []string{sx("div", x, y)}}
	case "%":
		return &Val{T: it, L: []string{sx("mod", x, y)}}
	case "<":
		return bval(lt(x, y))
	case "<=":
		return bval(le(x, y))
	case ">":
		return bval(gt(x, y))
	case ">=":
		return bval(ge(x, y))
	}
	e.fail("operator %s on integers", n.Op)
	return nil
}

func orInt(t types.Type) types.Type {
	if t == nil {
		return types.Typ[types.Int]
	}
	return t
}

func (e *evalEnv) equal(a, b *Val) string {
	isNil := func(v *Val) bool {
		bt, ok := v.T.(*types.Basic)
		return ok && bt.Kind() == types.UntypedNil
	}
	if isNil(b) {
		return eq(a.L[0], "0")
	}
	if isNil(a) {
		return eq(b.L[0], "0")
	}
	if len(a.L) == 1 && len(b.L) == 1 {
		la, oka := numLeaf(orInt(a.T))
		lb, okb := numLeaf(orInt(b.T))
		if oka && okb && (la.Kind != lb.Kind || la.Width != lb.Width) {
			return eq(leafToInt(la, a.L[0]), leafToInt(lb, b.L[0]))
		}
		return eq(a.L[0], b.L[0])
	}
	if len(a.L) != len(b.L) {
		e.fail("comparison of differently shaped values")
	}
	if a.T != nil && isIfaceT(a.T) && len(a.L) == 2 {
		// two nil interfaces are equal whatever their (meaningless) payload
		return and(eq(a.L[0], b.L[0]), or(eq(a.L[0], "0"), eq(a.L[1], b.L[1])))
	}
	var cs []string
	for i := range a.L {
		cs = append(cs, eq(a.L[i], b.L[i]))
	}
	return and(cs...)
}

// addrOf evaluates an lvalue expression to (address, type).
func (e *evalEnv) addrOf(n *Node) (string, types.Type) {
	switch n.Kind {
	case "paren":
		return e.addrOf(n.Args[0])
	case "ident":
		// a local variable whose address is taken lives in an allocated cell
		if _, bound := e.scope[n.Name]; !bound {
			for _, b := range e.fr.fn.Blocks {
				for _, ins := range b.Instrs {
					if al, ok := ins.(*ssa.Alloc); ok && al.Comment == n.Name {
						if v, ok := e.fr.vals[al]; ok {
							return v.L[0], elemOf(al.Type())
						}
					}
				}
			}
		}
	case "unary":
		if n.Op == "*" {
			x := e.eval(n.Args[0])
			return x.L[0], elemOf(x.T)
		}
	case "sel":
		base := n.Args[0]
		var addr string
		var st types.Type
		x := e.evalMaybeAddr(base)
		if x.isAddr {
			addr, st = x.addr, x.t
		} else if isPtrT(x.v.T) {
			addr, st = x.v.L[0], elemOf(x.v.T)
		} else {
			e.fail("selector on non-addressable value")
		}
		s, ok := st.Underlying().(*types.Struct)
		if !ok {
			e.fail("selector .%s on non-struct %v", n.Name, st)
		}
		for i := 0; i < s.NumFields(); i++ {
			if s.Field(i).Name() == n.Name {
				return add(addr, intLit(int64(fieldSlotOffset(s, i)))), s.Field(i).Type()
			}
		}
		e.fail("no field %s in %v", n.Name, st)
	case "index":
		x := e.eval(n.Args[0])
		i := e.intOf(e.eval(n.Args[1]))
		switch {
		case isSliceT(x.T):
			et := elemOf(x.T)
			return add(x.L[0], mul(i, intLit(int64(slots(et))))), et
		case isPtrT(x.T):
			if arr, ok := elemOf(x.T).Underlying().(*types.Array); ok {
				return add(x.L[0], mul(i, intLit(int64(slots(arr.Elem()))))), arr.Elem()
			}
		}
	}
	e.fail("not addressable: %s", n.Kind)
	return "", nil
}

type maybeAddr struct {
	isAddr bool
	addr   string
	t      types.Type
	v      *Val
}

func (e *evalEnv) evalMaybeAddr(n *Node) maybeAddr {
	if n.Kind == "sel" || n.Kind == "index" || (n.Kind == "unary" && n.Op == "*") {
		// try as lvalue first
		var res maybeAddr
		func() {
			defer func() {
				if r := recover(); r != nil {
					if _, ok := r.(evalError); !ok {
						panic(r)
					}
					res = maybeAddr{}
				}
			}()
			a, t := e.addrOf(n)
			res = maybeAddr{isAddr: true, addr: a, t: t}
		}()
		if res.isAddr {
			if _, ok := res.t.Underlying().(*types.Struct); ok {
				return res
			}
			if _, ok := res.t.Underlying().(*types.Array); ok {
				return res
			}
		}
	}
	return maybeAddr{v: e.eval(n)}
}

func (e *evalEnv) sel(n *Node) *Val {
	x := e.evalMaybeAddr(n.Args[0])
	if !x.isAddr && x.v != nil && !isPtrT(x.v.T) {
		// field of a struct value
		st, ok := x.v.T.Underlying().(*types.Struct)
		if !ok {
			e.fail("selector .%s on %v", n.Name, x.v.T)
		}
		lo := 0
		for i := 0; i < st.NumFields(); i++ {
			k := len(flatten(st.Field(i).Type()))
			if st.Field(i).Name() == n.Name {
				return &Val{T: st.Field(i).Type(), L: x.v.L[lo : lo+k]}
			}
			lo += k
		}
		e.fail("no field %s", n.Name)
	}
	a, t := e.addrOf(n)
	return e.loadAt(a, t)
}

func (e *evalEnv) index(n *Node) *Val {
	x := e.eval(n.Args[0])
	i := e.intOf(e.eval(n.Args[1]))
	if x.St != nil && (isSliceT(x.T) || isStringT(x.T)) {
		// the result of a method call (an accessor that converts or copies): its elements live in the state after that call
		save := e.st
		e.st = x.St
		defer func() { e.st = save }()
	}
	switch {
	case isSliceT(x.T):
		et := elemOf(x.T)
		return e.loadAt(add(x.L[0], mul(i, intLit(int64(slots(et))))), et)
	case isStringT(x.T):
		return e.loadAt(add(x.L[0], i), types.Typ[types.Uint8])
	case isPtrT(x.T):
		a, t := e.addrOf(n)
		return e.loadAt(a, t)
	}
	if arr, ok := x.T.Underlying().(*types.Array); ok {
		k := len(flatten(arr.Elem()))
		nn := int(arr.Len())
		res := &Val{T: arr.Elem(), L: make([]string, k)}
		for j := 0; j < k; j++ {
			t := x.L[(nn-1)*k+j]
			for q := nn - 2; q >= 0; q-- {
				t = ite(eq(i, intLit(int64(q))), x.L[q*k+j], t)
			}
			res.L[j] = t
		}
		return res
	}
	e.fail("index of %v", x.T)
	return nil
}

func (e *evalEnv) typeByName(n *Node) types.Type {
	ptr := false
	for n.Kind == "paren" {
		n = n.Args[0]
	}
	if n.Kind == "unary" && n.Op == "*" {
		ptr = true
		n = n.Args[0]
	}
	if n.Kind != "ident" {
		e.fail("expected a type name")
	}
	var t types.Type
	if obj := e.fr.vc.w.pkg.Pkg.Scope().Lookup(n.Name); obj != nil {
		if tn, ok := obj.(*types.TypeName); ok {
			t = tn.Type()
		}
	}
	if t == nil {
		if obj := types.Universe.Lookup(n.Name); obj != nil {
			if tn, ok := obj.(*types.TypeName); ok {
				t = tn.Type()
			}
		}
	}
	if t == nil {
		e.fail("unknown type %s", n.Name)
	}
	if ptr {
		return types.NewPointer(t)
	}
	return t
}

func (e *evalEnv) call(n *Node) *Val {
	fn := n.Args[0]
	args := n.Args[1:]
	fr := e.fr
	name := ""
	if fn.Kind == "ident" {
		name = fn.Name
	}
	switch name {
	case "old":
		save := e.st
		e.st = e.old
		v := e.eval(args[0])
		e.st = save
		return v
	case "len":
		x := e.eval(args[0])
		switch {
		case isSliceT(x.T), isStringT(x.T):
			return &Val{T: types.Typ[types.Int], L: []string{x.L[1]}}
		}
		if arr, ok := x.T.Underlying().(*types.Array); ok {
			return &Val{T: types.Typ[types.Int], L: []string{intLit(arr.Len())}}
		}
		e.fail("len of %v", x.T)
	case "cap":
		x := e.eval(args[0])
		if isSliceT(x.T) {
			return &Val{T: types.Typ[types.Int], L: []string{x.L[2]}}
		}
		e.fail("cap of %v", x.T)
	case "fresh":
		x := e.eval(args[0])
		return bval(ge(x.L[0], e.old.wm))
	case "allocated":
		x := e.eval(args[0])
		return bval(lt(x.L[0], e.st.wm))
	case "base":
		x := e.eval(args[0])
		return &Val{T: types.Typ[types.Int], L: []string{x.L[0]}}
	case "istype":
		x := e.eval(args[0])
		t := e.typeByName(args[1])
		return bval(eq(x.L[0], intLit(int64(fr.vc.w.typeID(t)))))
	case "payload":
		x := e.eval(args[0])
		t := e.typeByName(args[1])
		return &Val{T: t, L: []string{x.L[1]}}
	case "unchanged":
		// unchanged(lvalue): the location holds the same value as in the old state
		a, t := e.addrOf(args[0])
		now := e.loadAt(a, t)
		save := e.st
		e.st = e.old
		a0, _ := e.addrOf(args[0])
		was := e.loadAt(a0, t)
		e.st = save
		return bval(e.equal(now, was))
	case "S":
		// byte k of the ghost input stream
		fr.vc.streamConsts()
		k := e.intOf(e.eval(args[0]))
		return &Val{T: types.Typ[types.Uint8], L: []string{sel("g_S", k)}}
	case "errIsT":
		// errors.Is(e, T) for the stream's terminal error T
		fr.vc.streamConsts()
		x := e.eval(args[0])
		t := &Val{T: x.T, L: []string{"g_Ttag", "g_Tval"}}
		return mErrorsIs(fr, nil, nil, []*Val{x, t})
	case "isT":
		fr.vc.streamConsts()
		x := e.eval(args[0])
		return bval(and(eq(x.L[0], "g_Ttag"), eq(x.L[1], "g_Tval")))
	case "errIsEOF":
		x := e.eval(args[0])
		eof := e.ioGlobal("EOF")
		return mErrorsIs(fr, nil, nil, []*Val{x, eof})
	case "tIsEOF":
		fr.vc.streamConsts()
		eof := e.ioGlobal("EOF")
		return bval(and(eq(eof.L[0], "g_Ttag"), eq(eof.L[1], "g_Tval")))
	case "ival":
		// raw payload (address) of an interface value
		x := e.eval(args[0])
		return &Val{T: types.Typ[types.Int], L: []string{x.L[1]}}
	case "eqv":
		// value equality as an accessor user sees it: scalars and pointers by ==,
		// strings and byte slices by content
		a, b := e.eval(args[0]), e.eval(args[1])
		a, b = e.coerce(a, b)
		if (isStringT(a.T) || isSliceT(a.T)) && (isStringT(b.T) || isSliceT(b.T)) && len(flatten(elemOf(a.T))) == 1 {
			lf := flatten(elemOf(a.T))[0]
			rememberLeaf(lf)
			vc := fr.vc
			sa, sb := e.st, e.st
			if a.St != nil {
				sa = a.St
			}
			if b.St != nil {
				sb = b.St
			}
			arrA, arrB := vc.arr(sa, lf), vc.arr(sb, lf)
			lenEq := eq(a.L[1], b.L[1])
			if e.pol == -1 {
				k := vc.fresh("sk_eqv", "Int")
				vc.instantiate(arrA, add(a.L[0], k), 0)
				vc.instantiate(arrB, add(b.L[0], k), 0)
				return bval(and(lenEq, imp(and(le("0", k), lt(k, a.L[1])), eq(sel(arrA, add(a.L[0], k)), sel(arrB, add(b.L[0], k))))))
			}
			k := vc.name("q_k")
			return bval(and(lenEq, fmt.Sprintf("(forall ((%s Int)) (=> (and (<= 0 %s) (< %s %s)) (= (select %s (+ %s %s)) (select %s (+ %s %s)))))", k, k, k, a.L[1], arrA, a.L[0], k, arrB, b.L[0], k)))
		}
		return bval(e.equal(a, b))
	case "sameFormat":
		// the string was produced by fmt.Sprintf from the given constant format
		s, f := e.eval(args[0]), e.eval(args[1])
		return bval(eq(sel(fr.vc.strFmtArray(), s.L[0]), f.L[0]))
	case "upwidth", "sidwidth", "tfwidth", "wswidth":
		// width algebra: total encoded width of the first k elements of a list, as an
		// uninterpreted function of (the heap array holding the lengths/values, base, k)
		// whose one-step unfolding is emitted at every application
		x := e.eval(args[0])
		k := e.intOf(e.eval(args[1]))
		return &Val{T: types.Typ[types.Int], L: []string{fr.vc.sumWidth(name, e.st, x, k)}}
	case "haskey":
		// the literal map m has an entry for key k
		m := e.eval(args[0])
		k := e.eval(args[1])
		if m.Map == nil || m.Map.opaque {
			e.fail("haskey on a map that is not a literal")
		}
		var cs []string
		for _, key := range m.Map.keys {
			cs = append(cs, eq(k.L[0], key))
		}
		return bval(or(cs...))
	case "werr":
		// the error returned by the last Write of the caller's writer (ghost)
		errT := types.Universe.Lookup("error").Type()
		return &Val{T: errT, L: []string{fr.ghostOf(e.st, "$werr_t"), fr.ghostOf(e.st, "$werr_v")}}
	case "tainted":
		// byte j of x is marked secret in the ghost taint map (information-flow mode)
		x := e.eval(args[0])
		j := e.intOf(e.eval(args[1]))
		if !fr.vc.taint {
			return bval(tFalse)
		}
		return bval(fr.vc.read(e.st, taintLeaf, add(x.L[0], j)))
	case "untainted":
		// no byte of x is secret
		src := fmt.Sprintf("forall jt in 0..len(%s): !tainted(%s, jt)", nodeText(args[0]), nodeText(args[0]))
		n, err := parseSpec(src)
		if err != nil {
			e.fail("untainted: %v", err)
		}
		return e.eval(n)
	case "apart":
		// the backing array (up to its capacity) of slice x does not overlap the object pointed to by p
		x := e.eval(args[0])
		p := e.eval(args[1])
		es := intLit(int64(slots(elemOf(x.T))))
		n := intLit(int64(allocSlots(elemOf(p.T))))
		return bval(or(eq(x.L[2], "0"), le(add(x.L[0], mul(x.L[2], es)), p.L[0]), ge(x.L[0], add(p.L[0], n))))
	case "heapobj":
		// the slice is nil or lies outside the static data area (constants, package-level variables)
		x := e.eval(args[0])
		return bval(or(eq(x.L[0], "0"), ge(x.L[0], intLit(staticEnd))))
	case "separate":
		// the capacity ranges of two slices do not overlap
		a, b := e.eval(args[0]), e.eval(args[1])
		ea := intLit(int64(slots(elemOf(a.T))))
		eb := intLit(int64(slots(elemOf(b.T))))
		return bval(or(eq(a.L[2], "0"), eq(b.L[2], "0"), le(add(a.L[0], mul(a.L[2], ea)), b.L[0]), le(add(b.L[0], mul(b.L[2], eb)), a.L[0])))
	case "disjoint":
		// the element ranges of two slices do not overlap
		a, b := e.eval(args[0]), e.eval(args[1])
		ea := intLit(int64(slots(elemOf(a.T))))
		eb := intLit(int64(slots(elemOf(b.T))))
		return bval(or(eq(a.L[1], "0"), eq(b.L[1], "0"), le(add(a.L[0], mul(a.L[1], ea)), b.L[0]), le(add(b.L[0], mul(b.L[1], eb)), a.L[0])))
	case "implies":
		return bval(imp(e.eval(args[0]).L[0], e.eval(args[1]).L[0]))
	}
	// method call on a package type (accessors): inline its SSA, as for spec functions
	if fn.Kind == "sel" {
		recv := e.eval(fn.Args[0])
		if recv.T != nil {
			if m := fr.vc.w.methodOf(recv.T, fn.Name); m != nil {
				av := []*Val{recv}
				if !isPtrT(recv.T) && isPtrT(m.Params[0].Type()) {
					e.fail("method %s needs an addressable receiver", fn.Name)
				}
				for _, a := range args {
					av = append(av, e.eval(a))
				}
				fr.reach = tTrue
				fr.st = e.st.clone()
				res := fr.callFunc(nil, m, av, nil)
				if res != nil {
					r2 := *res
					r2.St = fr.st
					return &r2
				}
				return res
			}
		}
		e.fail("unknown method %s", fn.Name)
	}
	// conversion to a named or basic type
	if name != "" || fn.Kind == "paren" {
		var t types.Type
		func() {
			defer func() {
				if r := recover(); r != nil {
					if _, ok := r.(evalError); !ok {
						panic(r)
					}
					t = nil
				}
			}()
			t = e.typeByName(fn)
		}()
		if t != nil && len(args) == 1 {
			x := e.eval(args[0])
			ld, okd := numLeaf(t)
			if x.T == untypedInt && okd {
				return &Val{T: t, L: []string{intToLeaf(ld, x.L[0])}}
			}
			ls, oks := numLeaf(orInt(x.T))
			if oks && okd {
				return &Val{T: t, L: []string{convNum(ls, ld, x.L[0])}}
			}
			if len(flatten(t)) == len(x.L) {
				return &Val{T: t, L: x.L, Tags: x.Tags}
			}
			e.fail("conversion to %v", t)
		}
	}
	// spec function of the package (ghost Go): inline its SSA
	if name != "" {
		if f, ok := fr.vc.w.pkg.Members[name].(*ssa.Function); ok {
			var av []*Val
			for i, a := range args {
				v := e.eval(a)
				pt := f.Signature.Params().At(i).Type()
				if v.T == untypedInt {
					if l, ok := numLeaf(pt); ok {
						v = &Val{T: pt, L: []string{intToLeaf(l, v.L[0])}}
					}
				} else if l, ok := numLeaf(pt); ok {
					if ls, ok2 := numLeaf(orInt(v.T)); ok2 && (ls.Kind != l.Kind || ls.Width != l.Width) {
						v = &Val{T: pt, L: []string{convNum(ls, l, v.L[0])}}
					}
				}
				av = append(av, v)
			}
			fr.reach = tTrue
			fr.st = e.st.clone()
			return fr.inline(f, av, nil, nil)
		}
	}
	// method call on a value: only spec-level accessors are supported via functions
	e.fail("unknown function %s", name)
	return nil
}

func (e *evalEnv) ioGlobal(name string) *Val {
	w := e.fr.vc.w
	for _, p := range w.prog.AllPackages() {
		if p.Pkg.Path() == "io" {
			if g, ok := p.Members[name].(*ssa.Global); ok {
				return e.loadAt(intLit(w.globalAddr(g)), elemOf(g.Type()))
			}
		}
	}
	e.fail("io.%s not found", name)
	return nil
}

// intCandidates lists integer loop counters of the frame's function (and
// their successors) as instantiation candidates for quantifiers.
func (fr *Frame) intCandidates() []string {
	var out []string
	seen := map[string]bool{}
	for _, b := range fr.fn.Blocks {
		for _, ins := range b.Instrs {
			phi, ok := ins.(*ssa.Phi)
			if !ok {
				break
			}
			v, ok := fr.vals[phi]
			if !ok || len(v.L) != 1 {
				continue
			}
			if l, ok := numLeaf(phi.Type()); !ok || l.Kind != lkInt {
				continue
			}
			for _, c := range []string{v.L[0], add(v.L[0], "1")} {
				if !seen[c] {
					seen[c] = true
					out = append(out, c)
				}
			}
		}
	}
	return out
}

// boundGround: every enclosing quantified variable has been replaced by a ground term.
func (e *evalEnv) boundGround() bool {
	for _, v := range e.bound {
		if strings.HasPrefix(v, "q_") {
			return false
		}
	}
	return true
}

func (fr *Frame) ghostOf(st *State, name string) string {
	if t, ok := st.ghost[name]; ok {
		return t
	}
	return fr.vc.ghostInit(name)
}
