package main

// Trusted models of external functions and of the caller-supplied io.Reader /
// io.Writer (ghost stream, DESIGN 3.4 / 3.5). Everything in this file is an
// assumption and is listed as such in the evidence.

import (
	"fmt"
	"go/types"

	"golang.org/x/tools/go/ssa"
)

type externModel func(fr *Frame, ins ssa.Instruction, fn *ssa.Function, args []*Val) *Val

var externModels map[string]externModel

var externDoc = map[string]string{}

func init() {
	externModels = map[string]externModel{
		"fmt.Sprintf":                      mFreshString,
		"fmt.Sprint":                       mFreshString,
		"fmt.Errorf":                       mErrorf,
		"errors.New":                       mErrorf,
		"fmt.Fprintf":                      mFprint,
		"fmt.Fprintln":                     mFprint,
		"fmt.Fprint":                       mFprint,
		"bytes.Repeat":                     mBytesRepeat,
		"(*strings.Builder).WriteString":   mBuilderWrite,
		"(*strings.Builder).Write":         mBuilderWrite,
		"(*strings.Builder).WriteByte":     mBuilderWrite,
		"(*strings.Builder).String":        mFreshString,
		"strconv.FormatInt":                mFreshString,
		"strconv.Itoa":                     mFreshString,
		"(time.Duration).String":           mFreshString,
		"errors.Is":                        mErrorsIs,
	}
	externDoc["fmt.Sprintf"] = "fmt.Sprintf/Sprint, strings.Builder.String, strconv.FormatInt, time.Duration.String: return a fresh string, modify nothing, do not panic (String/Error methods of package types they may call are verified separately)"
	externDoc["fmt.Errorf"] = "fmt.Errorf/errors.New: return a fresh non-nil error that wraps the %w argument; modify nothing"
	externDoc["fmt.Fprintf"] = "fmt.Fprintf/Fprintln: modify nothing reachable from the packet, do not panic; their only blocking point is the caller's Write"
	externDoc["bytes.Repeat"] = "bytes.Repeat(b, n) with n >= 0 returns a fresh slice of length len(b)*n"
	externDoc["(*strings.Builder).WriteString"] = "strings.Builder.Write*: never fail, modify only the builder"
	externDoc["errors.Is"] = "errors.Is(err, target) is the reflexive-transitive closure of the ghost wraps relation"
}

func (vc *VC) strFmtArray() string {
	if !vc.declared["g_strfmt"] {
		vc.declared["g_strfmt"] = true
		vc.decls = append(vc.decls, "(declare-const g_strfmt (Array Int Int))")
	}
	return "g_strfmt"
}

func mFreshString(fr *Frame, ins ssa.Instruction, fn *ssa.Function, args []*Val) *Val {
	vc := fr.vc
	n := vc.fresh(fr.prefix+"_slen", "Int")
	vc.assume(and(le("0", n), le(n, maxCap)))
	base := fr.alloc(types.Typ[types.Uint8], n)
	if fn != nil && fn.String() == "fmt.Sprintf" && len(args) > 0 && isLit(args[0].L[0]) {
		// ghost: which constant format produced this string (the literal parts of
		// the format appear in the result - trusted model of fmt.Sprintf)
		vc.assume(imp(fr.reach, eq(sel(vc.strFmtArray(), base), args[0].L[0])))
	}
	return &Val{T: types.Typ[types.String], L: []string{base, n}}
}

// wraps relation: error payload address -> (tag,val) of the wrapped error.
func (vc *VC) wrapsArrays() (string, string) {
	for _, n := range []string{"g_wraps_t", "g_wraps_v"} {
		if !vc.declared[n] {
			vc.declared[n] = true
			vc.decls = append(vc.decls, fmt.Sprintf("(declare-const %s (Array Int Int))", n))
		}
	}
	return "g_wraps_t", "g_wraps_v"
}

func mErrorf(fr *Frame, ins ssa.Instruction, fn *ssa.Function, args []*Val) *Val {
	vc := fr.vc
	et := fn.Signature.Results().At(0).Type()
	tag := vc.w.typeID(types.NewPointer(types.NewNamed(types.NewTypeName(0, nil, "extern.wrapError", nil), types.NewStruct(nil, nil), nil)))
	addr := fr.alloc(types.Typ[types.Int], "1")
	res := &Val{T: et, L: []string{intLit(int64(tag)), addr}, Tags: []int{tag}}
	// which argument is wrapped: the last error-typed element of the varargs
	wt, wv := vc.wrapsArrays()
	wrapped := false
	if len(args) == 2 && isSliceT(args[1].T) {
		if c, ok := parseIntLit(args[1].L[1]); ok && c.IsInt64() {
			format := ""
			if call, ok := ins.(*ssa.Call); ok && len(call.Call.Args) > 0 {
				if k, ok := call.Call.Args[0].(*ssa.Const); ok {
					format = constString(k)
				}
			}
			idx := verbIndex(format, 'w')
			if idx >= 0 && int64(idx) < c.Int64() {
				anyT := elemOf(args[1].T)
				el := fr.load(add(args[1].L[0], intLit(int64(idx*slots(anyT)))), anyT)
				vc.assume(imp(fr.reach, and(eq(sel(wt, addr), el.L[0]), eq(sel(wv, addr), el.L[1]))))
				wrapped = true
			}
		}
	}
	if !wrapped {
		vc.assume(imp(fr.reach, eq(sel(wt, addr), "0")))
	}
	return res
}

// verbIndex returns the operand index of the first %<verb> in a format, or -1.
func verbIndex(format string, verb byte) int {
	n := 0
	for i := 0; i < len(format); i++ {
		if format[i] != '%' {
			continue
		}
		i++
		for i < len(format) && (format[i] == '+' || format[i] == '-' || format[i] == '#' || format[i] == ' ' || format[i] == '0' || format[i] >= '1' && format[i] <= '9' || format[i] == '.') {
			i++
		}
		if i >= len(format) {
			break
		}
		if format[i] == '%' {
			continue
		}
		if format[i] == verb {
			return n
		}
		n++
	}
	return -1
}

func mErrorsIs(fr *Frame, ins ssa.Instruction, fn *ssa.Function, args []*Val) *Val {
	vc := fr.vc
	wt, wv := vc.wrapsArrays()
	e, t := args[0], args[1]
	same := func(tag, val string) string { return and(eq(tag, t.L[0]), eq(val, t.L[1])) }
	// unfold the chain three levels (ReadPacket wraps at most twice)
	t1, v1 := sel(wt, e.L[1]), sel(wv, e.L[1])
	t2, v2 := sel(wt, v1), sel(wv, v1)
	r := and(neq(e.L[0], "0"), or(same(e.L[0], e.L[1]), and(neq(t1, "0"), or(same(t1, v1), and(neq(t2, "0"), same(t2, v2))))))
	return &Val{T: types.Typ[types.Bool], L: []string{r}}
}

func mFprint(fr *Frame, ins ssa.Instruction, fn *ssa.Function, args []*Val) *Val {
	// the writer is the caller's; its Write is abstract
	if len(args) > 0 && isIfaceT(args[0].T) {
		fr.writerCall(args[0], nil)
	}
	return fr.havocResult(fn)
}

func mBytesRepeat(fr *Frame, ins ssa.Instruction, fn *ssa.Function, args []*Val) *Val {
	vc := fr.vc
	cnt := args[1].L[0]
	vc.oblige(fr, ins, "extern-pre", 0, le("0", cnt), "bytes.Repeat: negative count")
	n := vc.define(fr.prefix+"_replen", "Int", mul(args[0].L[1], cnt))
	base := fr.alloc(types.Typ[types.Uint8], n)
	return &Val{T: fn.Signature.Results().At(0).Type(), L: []string{base, n, n}}
}

func mBuilderWrite(fr *Frame, ins ssa.Instruction, fn *ssa.Function, args []*Val) *Val {
	fr.nilCheck(ins, args[0].L[0])
	res := fn.Signature.Results()
	if res.Len() == 2 {
		it := types.Typ[types.Int]
		ln := "1"
		if len(args) > 1 && len(args[1].L) >= 2 {
			ln = args[1].L[1]
		}
		return &Val{T: res, Tup: []*Val{{T: it, L: []string{ln}}, {T: res.At(1).Type(), L: []string{"0", "0"}, Tags: []int{0}}}}
	}
	if res.Len() == 1 {
		return &Val{T: res.At(0).Type(), L: []string{"0", "0"}, Tags: []int{0}}
	}
	return nil
}

// ---- ghost stream ----

func (vc *VC) streamConsts() {
	if vc.declared["g_S"] {
		return
	}
	vc.declared["g_S"] = true
	p0 := vc.ghostInit("$pos")
	vc.decls = append(vc.decls, "(declare-const g_S (Array Int (_ BitVec 8)))", "(declare-const g_N Int)",
		"(declare-const g_Ttag Int)", "(declare-const g_Tval Int)", "(assert (and (> g_Ttag 0) (>= g_Tval 0)))",
		fmt.Sprintf("(assert (and (<= 0 %s) (<= %s g_N)))", p0, p0))
}

func (fr *Frame) ghostGet(name string) string {
	if t, ok := fr.st.ghost[name]; ok {
		return t
	}
	return fr.vc.ghostInit(name)
}

// abstractInvoke models a method call on an interface whose dynamic type
// belongs to the caller (io.Reader, io.Writer).
func (fr *Frame) abstractInvoke(ins ssa.Instruction, recv *Val, it types.Type, m *types.Func, args []*Val, rt types.Type) (*Val, bool) {
	vc := fr.vc
	full := m.FullName()
	switch full {
	case "(io.Reader).Read":
		vc.trusted["io.Reader.Read (ghost stream contract, DESIGN 3.4)"] = true
		vc.streamConsts()
		vc.oblige(fr, ins, "nil-deref", 2, neq(recv.L[0], "0"), "Read on nil io.Reader")
		p := args[0]
		pos := fr.ghostGet("$pos")
		n := vc.fresh(fr.prefix+"_rdn", "Int")
		vc.assume(and(le("0", n), le(n, p.L[1]), le(n, sub("g_N", pos))))
		// buffer contents
		u8 := flatten(types.Typ[types.Uint8])[0]
		rememberLeaf(u8)
		old := vc.arr(fr.st, u8)
		nw := vc.fresh(u8.Key, "(Array Int (_ BitVec 8))")
		scratch := vc.fresh("g_scratch", "(Array Int (_ BitVec 8))")
		pb, pl := p.L[0], p.L[1]
		vc.addAxiomArr(u8.Key, nw, old, fmt.Sprintf("(forall ((a Int)) (! (= (select %s a) (ite (and (<= %s a) (< a (+ %s %s))) (select g_S (+ %s (- a %s))) (ite (and (<= (+ %s %s) a) (< a (+ %s %s))) (select %s a) (select %s a)))) :pattern ((select %s a))))",
			nw, p.L[0], p.L[0], n, pos, p.L[0], p.L[0], n, p.L[0], p.L[1], scratch, old, nw), func(idx string) (string, []string) {
			return eq(sel(nw, idx), ite(and(le(pb, idx), lt(idx, add(pb, n))), sel("g_S", add(pos, sub(idx, pb))),
				ite(and(le(add(pb, n), idx), lt(idx, add(pb, pl))), sel(scratch, idx), sel(old, idx)))), nil
		})
		fr.st.heap[u8.Key] = nw
		vc.logStore(u8.Key, p.L[0], p.L[1])
		npos := vc.define("g_pos", "Int", add(pos, n))
		fr.st.ghost["$pos"] = npos
		cnt := fr.ghostGet("$reads")
		fr.st.ghost["$reads"] = vc.define("g_reads", "Int", add(cnt, "1"))
		etag := vc.fresh(fr.prefix+"_rderr_t", "Int")
		eval := vc.fresh(fr.prefix+"_rderr_v", "Int")
		vc.assume(and(le("0", etag), le("0", eval), lt(eval, fr.st.wm)))
		vc.assume(imp(neq(etag, "0"), and(eq(etag, "g_Ttag"), eq(eval, "g_Tval"), eq(npos, "g_N"))))
		tup := rt.(*types.Tuple)
		return &Val{T: rt, Tup: []*Val{{T: tup.At(0).Type(), L: []string{n}}, {T: tup.At(1).Type(), L: []string{etag, eval}}}}, true
	case "(io.Writer).Write":
		vc.trusted["io.Writer.Write (writer contract, DESIGN 3.5)"] = true
		vc.oblige(fr, ins, "nil-deref", 2, neq(recv.L[0], "0"), "Write on nil io.Writer")
		if vc.taint && vc.specDepth == 0 {
			fr.checkSinks("io.Writer.Write", args)
		}
		return fr.writerCall(recv, args[0]), true
	}
	return nil, false
}

func (fr *Frame) writerCall(w *Val, b *Val) *Val {
	vc := fr.vc
	cnt := fr.ghostGet("$writes")
	fr.st.ghost["$writes"] = vc.define("g_writes", "Int", add(cnt, "1"))
	it := types.Typ[types.Int]
	errT := types.Universe.Lookup("error").Type()
	n := vc.fresh(fr.prefix+"_wrn", "Int")
	etag := vc.fresh(fr.prefix+"_wrerr_t", "Int")
	eval := vc.fresh(fr.prefix+"_wrerr_v", "Int")
	vc.assume(and(le("0", etag), le("0", eval), lt(eval, fr.st.wm)))
	if b != nil {
		fr.st.ghost["$wbase"] = b.L[0]
		fr.st.ghost["$wlen"] = b.L[1]
		// $w0: the first byte handed to the writer (-1 for an empty buffer)
		u8 := flatten(types.Typ[types.Uint8])[0]
		rememberLeaf(u8)
		fr.st.ghost["$w0"] = vc.define("g_w0", "Int", ite(lt("0", b.L[1]), "(bv2nat "+vc.read(fr.st, u8, b.L[0])+")", "(- 1)"))
		vc.assume(and(le("0", n), le(n, b.L[1]), imp(lt(n, b.L[1]), neq(etag, "0"))))
	}
	fr.st.ghost["$wn"] = n
	fr.st.ghost["$werr_t"] = etag
	fr.st.ghost["$werr_v"] = eval
	return &Val{T: types.NewTuple(types.NewVar(0, nil, "", it), types.NewVar(0, nil, "", errT)),
		Tup: []*Val{{T: it, L: []string{n}}, {T: errT, L: []string{etag, eval}}}}
}
