package main

// Automatic loop frames: during the trial run of a loop body every heap
// write is logged with its address term. If all addresses written under a
// heap key are (ite-combinations of) terms that do not depend on the loop
// state, or lie in memory allocated inside the loop, every other location
// that existed before the loop keeps its value across the loop. This is
// emitted as a frame axiom on the havoced array.

import (
	"fmt"
	"os"
	"regexp"
	"strconv"
	"strings"
)

type storeRec struct {
	key   string
	addr  string
	count string // "" for a single cell, otherwise number of slots written from addr
}

type sxNode struct {
	atom string
	list []*sxNode
}

func parseSx(s string) *sxNode {
	pos := 0
	var parse func() *sxNode
	parse = func() *sxNode {
		for pos < len(s) && s[pos] == ' ' {
			pos++
		}
		if pos >= len(s) {
			return &sxNode{}
		}
		if s[pos] == '(' {
			pos++
			n := &sxNode{list: []*sxNode{}}
			for {
				for pos < len(s) && s[pos] == ' ' {
					pos++
				}
				if pos >= len(s) {
					return n
				}
				if s[pos] == ')' {
					pos++
					return n
				}
				n.list = append(n.list, parse())
			}
		}
		start := pos
		for pos < len(s) && s[pos] != ' ' && s[pos] != '(' && s[pos] != ')' {
			pos++
		}
		return &sxNode{atom: s[start:pos]}
	}
	return parse()
}

func (n *sxNode) String() string {
	if n.list == nil {
		return n.atom
	}
	var parts []string
	for _, c := range n.list {
		parts = append(parts, c.String())
	}
	return "(" + strings.Join(parts, " ") + ")"
}

var reNameNum = regexp.MustCompile(`!(\d+)`)

// addrLeaves expands an address term into the base terms it may evaluate to
// (through definitions, ite and constant offsets). ok=false if too complex.
func (vc *VC) addrLeaves(term string, budget *int) ([]string, bool) {
	*budget--
	if *budget < 0 {
		return nil, false
	}
	if vc.allocLog[term] {
		return []string{term}, true // an address allocated in the logged region
	}
	if d, ok := vc.defs[term]; ok {
		return vc.addrLeaves(d, budget)
	}
	if !strings.HasPrefix(term, "(") {
		return []string{term}, true
	}
	n := parseSx(term)
	if len(n.list) == 4 && n.list[0].atom == "ite" {
		a, ok1 := vc.addrLeaves(n.list[2].String(), budget)
		b, ok2 := vc.addrLeaves(n.list[3].String(), budget)
		if !ok1 || !ok2 {
			return nil, false
		}
		return append(a, b...), true
	}
	if len(n.list) == 3 && n.list[0].atom == "+" {
		x, y := n.list[1].String(), n.list[2].String()
		if _, ok := parseIntLit(y); ok {
			ls, ok := vc.addrLeaves(x, budget)
			if !ok {
				return nil, false
			}
			var out []string
			for _, l := range ls {
				out = append(out, add(l, y))
			}
			return out, true
		}
	}
	return []string{term}, true
}

// expandFully replaces defined names inside a term by their definitions so
// that only names older than limit (or undefined ones) remain.
func (vc *VC) expandFully(term string, limit int, budget *int) (string, bool) {
	*budget--
	if *budget < 0 {
		return "", false
	}
	n := parseSx(term)
	var walk func(n *sxNode) (string, bool)
	walk = func(n *sxNode) (string, bool) {
		if n.list == nil {
			if m := reNameNum.FindStringSubmatch(n.atom); m != nil {
				k, _ := strconv.Atoi(m[1])
				if k >= limit {
					d, ok := vc.defs[n.atom]
					if !ok {
						return "", false // declared (havoced) inside the loop
					}
					return vc.expandFully(d, limit, budget)
				}
			}
			return n.atom, true
		}
		var parts []string
		for _, c := range n.list {
			s, ok := walk(c)
			if !ok {
				return "", false
			}
			parts = append(parts, s)
		}
		return "(" + strings.Join(parts, " ") + ")", true
	}
	return walk(n)
}

// inferLoopFrame returns, per heap key, the loop-invariant addresses that may
// be written (nil entry = cannot be framed).
func (vc *VC) inferLoopFrame(log []storeRec, allocs map[string]bool, limit int) map[string][]string {
	out := map[string][]string{}
	bad := map[string]bool{}
	for _, st := range log {
		if bad[st.key] {
			continue
		}
		budget := 400
		leaves, ok := vc.addrLeaves(st.addr, &budget)
		if !ok {
			bad[st.key] = true
			continue
		}
		if os.Getenv("MQVC_DEBUG") != "" {
			fmt.Fprintf(os.Stderr, "store %s addr=%s count=%q leaves=%v allocs=%v\n", st.key, st.addr, st.count, leaves, allocs)
		}
		for _, lf := range leaves {
			// strip a constant offset to recognise fresh allocations
			base := lf
			if n := parseSx(lf); len(n.list) == 3 && n.list[0].atom == "+" {
				if _, ok := parseIntLit(n.list[2].String()); ok {
					base = n.list[1].String()
				}
			}
			if allocs[base] || allocs[lf] {
				continue // memory allocated inside the loop
			}
			if st.count != "" {
				bad[st.key] = true // a range write into pre-existing memory
				break
			}
			b2 := 2000
			full, ok := vc.expandFully(lf, limit, &b2)
			if !ok {
				bad[st.key] = true
				break
			}
			out[st.key] = append(out[st.key], full)
		}
	}
	for k := range bad {
		delete(out, k)
	}
	for k, v := range out {
		out[k] = uniq(v)
		if len(out[k]) > 40 {
			delete(out, k)
		}
	}
	// keys written only to fresh memory
	for _, st := range log {
		if !bad[st.key] {
			if _, ok := out[st.key]; !ok {
				out[st.key] = []string{}
			}
		}
	}
	return out
}

func frameAxiom(nw, old, wm string, except []string) string {
	conds := []string{sx2("<", "a", wm)}
	for _, e := range except {
		conds = append(conds, fmt.Sprintf("(not (= a %s))", e))
	}
	return fmt.Sprintf("(forall ((a Int)) (! (=> %s (= (select %s a) (select %s a))) :pattern ((select %s a))))", and(conds...), nw, old, nw)
}

func sx2(op, a, b string) string { return "(" + op + " " + a + " " + b + ")" }
