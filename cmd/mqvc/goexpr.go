package main

// Translation of contract expressions to Go source, so that a replay test
// can evaluate a postcondition on the result of the real function.

import (
	"fmt"
	"strings"
)

type goCtx struct {
	old     bool
	oldName map[string]string // expression text -> saved variable
	bad     string
	recv    string
	dataParam string
	lets      map[string]*Node
	depth     int
}

const replayHelpers = `
var _ = strings.Contains

func specIte[T any](c bool, a, b T) T {
	if c {
		return a
	}
	return b
}

func specForall(lo, hi int, f func(k int) bool) bool {
	for k := lo; k < hi && k < lo+70000; k++ {
		if !f(k) {
			return false
		}
	}
	return true
}

func specExists(lo, hi int, f func(k int) bool) bool {
	for k := lo; k < hi && k < lo+70000; k++ {
		if f(k) {
			return true
		}
	}
	return false
}

// specSameFormat: the literal text after the last verb-free prefix of the format occurs in s
func specSameFormat(s, format string) bool {
	lit := format
	for {
		i := strings.Index(lit, "%")
		if i < 0 {
			break
		}
		rest := lit[i+2:]
		if j := strings.Index(rest, "%"); j >= 0 {
			if j > 2 {
				return strings.Contains(s, rest[:j])
			}
			lit = rest
			continue
		}
		if len(rest) > 0 {
			return strings.Contains(s, rest)
		}
		break
	}
	return true
}

// specBase is the address of the first element of a slice or string (0 for nil/empty).
func specBase(x any) uintptr {
	v := reflect.ValueOf(x)
	switch v.Kind() {
	case reflect.Slice:
		if v.Cap() == 0 {
			return 0
		}
		return v.Pointer()
	case reflect.String:
		if v.Len() == 0 {
			return 0
		}
		return uintptr(unsafe.Pointer(unsafe.StringData(v.String())))
	case reflect.Pointer:
		return v.Pointer()
	}
	return 0
}

// specFresh: x does not lie inside the memory of the input slice.
func specFresh(x any, data []byte) bool {
	b := specBase(x)
	if b == 0 || cap(data) == 0 {
		return true
	}
	lo := uintptr(unsafe.Pointer(unsafe.SliceData(data)))
	return b < lo || b >= lo+uintptr(cap(data))
}

func spec_upwidth(x UserProperties, k int) int {
	n := 0
	for j := 0; j < k && j < len(x); j++ {
		if len(x[j][0]) != 0 {
			n += 5 + len(x[j][0]) + len(x[j][1])
		}
	}
	return n
}

func spec_sidwidth(x []uint32, k int) int {
	n := 0
	for j := 0; j < k && j < len(x); j++ {
		if x[j] != 0 {
			n += 1 + specVbWidth(uint(x[j]))
		}
	}
	return n
}

func spec_tfwidth(x []TopicFilter, k int) int {
	n := 0
	for j := 0; j < k && j < len(x); j++ {
		n += 3 + len(x[j].filter)
	}
	return n
}

func spec_wswidth(x []wstring, k int) int {
	n := 0
	for j := 0; j < k && j < len(x); j++ {
		n += 2 + len(x[j])
	}
	return n
}

func specEqv(a, b any) bool {
	bs := func(x any) ([]byte, bool) {
		v := reflect.ValueOf(x)
		switch v.Kind() {
		case reflect.String:
			return []byte(v.String()), true
		case reflect.Slice:
			if v.Type().Elem().Kind() == reflect.Uint8 {
				return v.Bytes(), true
			}
		}
		return nil, false
	}
	if x, ok := bs(a); ok {
		if y, ok := bs(b); ok {
			return string(x) == string(y)
		}
	}
	va, vb := reflect.ValueOf(a), reflect.ValueOf(b)
	if va.IsValid() && vb.IsValid() && va.CanInt() && vb.CanInt() {
		return va.Int() == vb.Int()
	}
	if va.IsValid() && vb.IsValid() && va.CanUint() && vb.CanUint() {
		return va.Uint() == vb.Uint()
	}
	return reflect.DeepEqual(a, b)
}

func specAt[S ~[]E, E any](s S, i int) E {
	var z E
	if i < 0 || i >= len(s) {
		return z
	}
	return s[i]
}
`

func (c *goCtx) fail(msg string) string {
	if c.bad == "" {
		c.bad = msg
	}
	return "true"
}

func (c *goCtx) expr(n *Node) string {
	switch n.Kind {
	case "paren":
		return "(" + c.expr(n.Args[0]) + ")"
	case "num":
		return n.Name
	case "ident":
		if strings.HasPrefix(n.Name, "$") {
			return c.fail("ghost variable " + n.Name)
		}
		if n.Name == "self" {
			return c.recv
		}
		if ln, ok := c.lets[n.Name]; ok && c.depth < 8 {
			c.depth++
			s := "(" + c.expr(ln) + ")"
			c.depth--
			return s
		}
		if c.old {
			return "old_" + n.Name
		}
		return n.Name
	case "unary":
		return "(" + n.Op + c.expr(n.Args[0]) + ")"
	case "binary":
		a, b := c.expr(n.Args[0]), c.expr(n.Args[1])
		switch n.Op {
		case "==>":
			return "(!(" + a + ") || (" + b + "))"
		case "<==>":
			return "((" + a + ") == (" + b + "))"
		}
		return "(" + a + " " + n.Op + " " + b + ")"
	case "cond":
		return "specIte(" + c.expr(n.Args[0]) + ", " + c.expr(n.Args[1]) + ", " + c.expr(n.Args[2]) + ")"
	case "forall", "exists":
		f := "specForall"
		if n.Kind == "exists" {
			f = "specExists"
		}
		return fmt.Sprintf("%s(%s, %s, func(%s int) bool { return %s })", f, c.expr(n.Args[0]), c.expr(n.Args[1]), n.Name, c.expr(n.Args[2]))
	case "sel":
		return c.expr(n.Args[0]) + "." + n.Name
	case "index":
		return "specAt(" + c.expr(n.Args[0]) + ", int(" + c.expr(n.Args[1]) + "))"
	case "slice":
		return c.fail("slice expression")
	case "call":
		fn := n.Args[0]
		name := ""
		if fn.Kind == "ident" {
			name = fn.Name
		}
		args := n.Args[1:]
		switch name {
		case "old":
			save := c.old
			c.old = true
			s := c.expr(args[0])
			c.old = save
			return s
		case "fresh":
			if c.dataParam != "" {
				return "specFresh(" + c.expr(args[0]) + ", " + c.dataParam + ")"
			}
			return "true"
		case "allocated", "disjoint", "separate", "heapobj", "apart":
			return "true"
		case "base":
			return "specBase(" + c.expr(args[0]) + ")"
		case "ival":
			return c.fail(name + "()")
		case "unchanged":
			save := c.old
			now := c.expr(args[0])
			c.old = true
			was := c.expr(args[0])
			c.old = save
			return "reflect.DeepEqual(" + now + ", " + was + ")"
		case "istype":
			return "func() bool { _, ok := any(" + c.expr(args[0]) + ").(" + typeText(args[1]) + "); return ok }()"
		case "payload":
			return "any(" + c.expr(args[0]) + ").(" + typeText(args[1]) + ")"
		case "implies":
			return "(!(" + c.expr(args[0]) + ") || (" + c.expr(args[1]) + "))"
		}
		var as []string
		for _, a := range args {
			as = append(as, c.expr(a))
		}
		switch name {
		case "upwidth", "sidwidth", "tfwidth", "wswidth":
			if len(as) == 2 {
				return "spec_" + name + "(" + as[0] + ", int(" + as[1] + "))"
			}
		}
		if name == "sameFormat" && len(as) == 2 {
			return "specSameFormat(" + as[0] + ", " + as[1] + ")"
		}
		if name == "eqv" && len(as) == 2 {
			return "specEqv(" + as[0] + ", " + as[1] + ")"
		}
		if fn.Kind == "sel" {
			return c.expr(fn) + "(" + strings.Join(as, ", ") + ")"
		}
		if name == "" {
			return typeText(fn) + "(" + strings.Join(as, ", ") + ")"
		}
		return name + "(" + strings.Join(as, ", ") + ")"
	}
	return c.fail("node " + n.Kind)
}

func typeText(n *Node) string {
	switch n.Kind {
	case "paren":
		return "(" + typeText(n.Args[0]) + ")"
	case "unary":
		return n.Op + typeText(n.Args[0])
	case "ident":
		return n.Name
	}
	return "any"
}
