package main

// Semantics of the non-terminator SSA instructions.

import (
	"fmt"
	"go/constant"
	"go/token"
	"go/types"
	"math/big"

	"golang.org/x/tools/go/ssa"
)

func constString(c *ssa.Const) string { return constant.StringVal(c.Value) }

func (fr *Frame) execInstr(ins ssa.Instruction) {
	vc := fr.vc
	switch ins := ins.(type) {
	case *ssa.DebugRef:
		return
	case *ssa.Alloc:
		t := elemOf(ins.Type())
		addr := fr.alloc(t, "1")
		fr.zeroRange(t, addr, "1")
		fr.noteAlloc(intLit(int64(allocSlots(t))))
		fr.set(ins, &Val{T: ins.Type(), L: []string{addr}})
	case *ssa.BinOp:
		fr.set(ins, fr.binop(ins, ins.Op, fr.get(ins.X), fr.get(ins.Y), ins.Type()))
	case *ssa.UnOp:
		fr.unop(ins)
	case *ssa.Call:
		res := fr.doCall(ins, &ins.Call)
		if res != nil {
			if res.Tup != nil {
				fr.vals[ins] = res
			} else {
				fr.set(ins, res)
			}
		}
	case *ssa.ChangeInterface:
		x := fr.get(ins.X)
		fr.set(ins, &Val{T: ins.Type(), L: x.L, Tags: x.Tags, Alts: x.Alts})
	case *ssa.ChangeType:
		x := fr.get(ins.X)
		if isPtrT(ins.Type()) {
			vc.unsupported(fr, "pointer type conversion")
		}
		fr.set(ins, &Val{T: ins.Type(), L: x.L, Fn: x.Fn, Map: x.Map})
	case *ssa.Convert:
		fr.convert(ins)
	case *ssa.Extract:
		t := fr.get(ins.Tuple)
		if t.Tup == nil || ins.Index >= len(t.Tup) {
			vc.unsupported(fr, "extract from non-tuple")
			fr.set(ins, fr.havoc(ins.Type(), "x"))
			return
		}
		fr.set(ins, t.Tup[ins.Index])
	case *ssa.Field:
		x := fr.get(ins.X)
		st := ins.X.Type().Underlying().(*types.Struct)
		lo := 0
		for i := 0; i < ins.Field; i++ {
			lo += len(flatten(st.Field(i).Type()))
		}
		n := len(flatten(st.Field(ins.Field).Type()))
		fr.set(ins, &Val{T: ins.Type(), L: x.L[lo : lo+n]})
	case *ssa.FieldAddr:
		x := fr.get(ins.X)
		fr.nilCheck(ins, x.L[0])
		st := elemOf(ins.X.Type()).Underlying().(*types.Struct)
		fr.set(ins, &Val{T: ins.Type(), L: []string{add(x.L[0], intLit(int64(fieldSlotOffset(st, ins.Field))))}})
	case *ssa.Index:
		fr.indexValue(ins)
	case *ssa.IndexAddr:
		fr.indexAddr(ins)
	case *ssa.Lookup:
		fr.lookup(ins)
	case *ssa.MakeClosure:
		var binds []*Val
		for _, b := range ins.Bindings {
			binds = append(binds, fr.get(b))
		}
		c := vc.newClosure(ins.Fn.(*ssa.Function), binds)
		fr.set(ins, &Val{T: ins.Type(), L: []string{intLit(int64(c.id))}, Fn: []int{c.id}})
	case *ssa.MakeInterface:
		fr.makeInterface(ins, ins.X, ins.Type())
	case *ssa.MakeMap:
		mt := ins.Type().Underlying().(*types.Map)
		vc.nmap++
		m := &SymMap{id: vc.nmap, elemT: mt.Elem(), keyT: mt.Key()}
		fr.set(ins, &Val{T: ins.Type(), L: []string{intLit(int64(1000 + vc.nmap))}, Map: m})
	case *ssa.MapUpdate:
		m := fr.get(ins.Map)
		k := fr.get(ins.Key)
		if m.Map == nil || m.Map.opaque || len(k.L) != 1 || !isLit(k.L[0]) {
			vc.unsupported(fr, "map update on non-literal map/key")
			return
		}
		if len(m.Map.keys) == 0 && m.Map.id == 0 {
			vc.oblige(fr, ins, "nil-map", 0, tFalse, "assignment to entry in nil map")
			return
		}
		for i, kk := range m.Map.keys {
			if kk == k.L[0] {
				m.Map.vals[i] = fr.get(ins.Value)
				return
			}
		}
		m.Map.keys = append(m.Map.keys, k.L[0])
		m.Map.keyVals = append(m.Map.keyVals, k)
		m.Map.vals = append(m.Map.vals, fr.get(ins.Value))
	case *ssa.MakeSlice:
		n := fr.toInt(fr.get(ins.Len))
		c := fr.toInt(fr.get(ins.Cap))
		vc.oblige(fr, ins, "make-len", 0, and(le("0", n), le(n, c)), "makeslice: len out of range")
		vc.assume(imp(fr.reach, le(c, maxCap))) // allocation sizes fit in memory (resource exhaustion is out of scope)
		et := elemOf(ins.Type())
		base := fr.alloc(et, c)
		fr.zeroRange(et, base, c)
		fr.noteAlloc(mul(c, intLit(int64(slots(et)))))
		fr.set(ins, &Val{T: ins.Type(), L: []string{base, n, c}})
	case *ssa.Next:
		fr.next(ins)
	case *ssa.Range:
		x := fr.get(ins.X)
		if x.Map != nil {
			it := &SymIter{m: x.Map}
			fr.vals[ins] = &Val{T: ins.Type(), Iter: it}
			if !x.Map.opaque && len(x.Map.keys) > 1 {
				vc.oblige(fr, ins, "map-range-order", 0, tFalse,
					fmt.Sprintf("range over a map with %d entries: iteration order is not deterministic", len(x.Map.keys)))
			}
			return
		}
		vc.unsupported(fr, "range over string")
		fr.vals[ins] = &Val{T: ins.Type(), Iter: &SymIter{str: x}}
	case *ssa.Slice:
		fr.slice(ins)
	case *ssa.Store:
		a := fr.get(ins.Addr)
		fr.nilCheck(ins, a.L[0])
		val := fr.get(ins.Val)
		fr.storeVal(a.L[0], elemOf(ins.Addr.Type()), val)
		// ghost monitor: $rejected counts the times a non-nil error is recorded in a parse buffer
		if fa, ok := ins.Addr.(*ssa.FieldAddr); ok {
			if st, ok := elemOf(fa.X.Type()).Underlying().(*types.Struct); ok && st.Field(fa.Field).Name() == "err" && typeStr(elemOf(fa.X.Type())) == "mq.buffer" {
				cur := fr.ghostGet("$rejected")
				fr.st.ghost["$rejected"] = vc.define("g_rejected", "Int", ite(eq(val.L[0], "0"), cur, add(cur, "1")))
			}
		}
	case *ssa.TypeAssert:
		fr.typeAssert(ins)
	case *ssa.Phi:
		panic("phi in instruction stream")
	case *ssa.RunDefers:
		return
	default:
		vc.unsupported(fr, fmt.Sprintf("instruction %T", ins))
		if v, ok := ins.(ssa.Value); ok {
			fr.set(v, fr.havoc(v.Type(), "unsup"))
		}
	}
}

func (fr *Frame) noteAlloc(slotsTerm string) {
	cur := fr.ghostGet("$alloc")
	fr.st.ghost["$alloc"] = fr.vc.define("g_alloc", "Int", add(cur, slotsTerm))
}

func (fr *Frame) nilCheck(ins ssa.Instruction, p string) {
	if n, ok := parseIntLit(p); ok && n.Sign() > 0 {
		return
	}
	fr.vc.oblige(fr, ins, "nil-deref", 0, neq(p, "0"), "nil pointer dereference")
}

// toInt converts an integer-typed value to an Int term.
func (fr *Frame) toInt(v *Val) string {
	l := flatten(v.T)[0]
	return leafToInt(l, v.L[0])
}

func leafToInt(l Leaf, x string) string {
	if l.Kind != lkBV {
		return x
	}
	if val, w, ok := parseBvLit(x); ok {
		if l.Signed && val >= 1<<(uint(w)-1) {
			return intLit(int64(val) - (1 << uint(w)))
		}
		return fmt.Sprintf("%d", val)
	}
	n := sx("bv2nat", x)
	if l.Signed {
		return ite(sx("bvslt", x, bvLit(0, l.Width)), sub(n, bigLit(pow2(uint(l.Width)))), n)
	}
	return n
}

func intToLeaf(l Leaf, x string) string {
	if l.Kind != lkBV {
		return x
	}
	if n, ok := parseIntLit(x); ok {
		m := new(big.Int).Mod(n, pow2(uint(l.Width)))
		return bvLit(m.Uint64(), l.Width)
	}
	return fmt.Sprintf("((_ int2bv %d) %s)", l.Width, x)
}

func numLeaf(t types.Type) (Leaf, bool) {
	ls := flatten(t)
	if len(ls) != 1 {
		return Leaf{}, false
	}
	if ls[0].Kind == lkInt || ls[0].Kind == lkBV {
		return ls[0], true
	}
	return Leaf{}, false
}

func wrapInt(l Leaf, x string) string {
	// normalise a mathematical result into the range of a 64-bit type
	if n, ok := parseIntLit(x); ok {
		m := new(big.Int).Mod(n, two64)
		if l.Signed && m.Cmp(two63) >= 0 {
			m.Sub(m, two64)
		}
		return bigLit(m)
	}
	return x
}

func (fr *Frame) binop(ins ssa.Instruction, op token.Token, x, y *Val, rt types.Type) *Val {
	vc := fr.vc
	out := func(t string) *Val { return &Val{T: rt, L: []string{t}} }
	switch op {
	case token.EQL, token.NEQ:
		e := fr.valEq(ins, x, y)
		if op == token.NEQ {
			e = not(e)
		}
		return out(e)
	}
	if b, ok := x.T.Underlying().(*types.Basic); ok && b.Info()&types.IsBoolean != 0 {
		switch op {
		case token.LAND:
			return out(and(x.L[0], y.L[0]))
		case token.LOR:
			return out(or(x.L[0], y.L[0]))
		}
	}
	if isStringT(x.T) {
		if op == token.ADD {
			// concatenation: fresh string
			n := add(x.L[1], y.L[1])
			base := fr.alloc(types.Typ[types.Uint8], n)
			fr.copyRange(types.Typ[types.Uint8], base, x.L[0], x.L[1])
			fr.copyRange(types.Typ[types.Uint8], add(base, x.L[1]), y.L[0], y.L[1])
			fr.noteAlloc(n)
			return &Val{T: rt, L: []string{base, n}}
		}
		vc.unsupported(fr, "string comparison "+op.String())
		return fr.havoc(rt, "strcmp")
	}
	lx, ok := numLeaf(x.T)
	if !ok {
		vc.unsupported(fr, fmt.Sprintf("binop %s on %s", op, x.T))
		return fr.havoc(rt, "binop")
	}
	a, b := x.L[0], y.L[0]
	if op == token.SHL || op == token.SHR {
		ly, _ := numLeaf(y.T)
		cnt := leafToInt(ly, b)
		if lx.Kind == lkBV {
			var c string
			if n, ok := parseIntLit(cnt); ok {
				if n.Cmp(big.NewInt(int64(lx.Width))) >= 0 {
					c = bvLit(uint64(lx.Width), lx.Width)
				} else {
					c = bvLit(n.Uint64(), lx.Width)
				}
			} else {
				c = intToLeaf(lx, ite(ge(cnt, intLit(int64(lx.Width))), intLit(int64(lx.Width)), cnt))
			}
			if op == token.SHL {
				return out(sx("bvshl", a, c))
			}
			if lx.Signed {
				return out(sx("bvashr", a, c))
			}
			return out(sx("bvlshr", a, c))
		}
		n, ok := parseIntLit(cnt)
		if !ok || !n.IsInt64() || n.Int64() > 64 {
			vc.unsupported(fr, "shift of 64-bit integer by a non-constant")
			return fr.havoc(rt, "shift")
		}
		p := bigLit(pow2(uint(n.Int64())))
		if op == token.SHL {
			return out(mul(a, p))
		}
		return out(sx("div", a, p))
	}
	if lx.Kind == lkBV {
		switch op {
		case token.ADD:
			return out(sx("bvadd", a, b))
		case token.SUB:
			return out(sx("bvsub", a, b))
		case token.MUL:
			return out(sx("bvmul", a, b))
		case token.QUO, token.REM:
			vc.oblige(fr, ins, "div-zero", 0, neq(b, bvLit(0, lx.Width)), "integer divide by zero")
			o := map[token.Token][2]string{token.QUO: {"bvudiv", "bvsdiv"}, token.REM: {"bvurem", "bvsrem"}}[op]
			if lx.Signed {
				return out(sx(o[1], a, b))
			}
			return out(sx(o[0], a, b))
		case token.AND:
			return out(sx("bvand", a, b))
		case token.OR:
			return out(sx("bvor", a, b))
		case token.XOR:
			return out(sx("bvxor", a, b))
		case token.AND_NOT:
			return out(sx("bvand", a, sx("bvnot", b)))
		case token.LSS, token.LEQ, token.GTR, token.GEQ:
			o := map[token.Token][2]string{token.LSS: {"bvult", "bvslt"}, token.LEQ: {"bvule", "bvsle"},
				token.GTR: {"bvugt", "bvsgt"}, token.GEQ: {"bvuge", "bvsge"}}[op]
			if lx.Signed {
				return out(sx(o[1], a, b))
			}
			return out(sx(o[0], a, b))
		}
		vc.unsupported(fr, "bit-vector op "+op.String())
		return fr.havoc(rt, "bvop")
	}
	// mathematical integers
	switch op {
	case token.ADD:
		return out(wrapInt(lx, add(a, b)))
	case token.SUB:
		if lx.Signed {
			return out(wrapInt(lx, sub(a, b)))
		}
		if _, ok := parseIntLit(sub(a, b)); ok {
			return out(wrapInt(lx, sub(a, b)))
		}
		return out(ite(lt(a, b), add(sub(a, b), bigLit(two64)), sub(a, b)))
	case token.MUL:
		return out(wrapInt(lx, mul(a, b)))
	case token.QUO, token.REM:
		vc.oblige(fr, ins, "div-zero", 0, neq(b, "0"), "integer divide by zero")
		if !lx.Signed {
			if op == token.QUO {
				return out(sx("div", a, b))
			}
			return out(sx("mod", a, b))
		}
		// Go truncates toward zero
		q := ite(ge(a, "0"), sx("div", a, b), sx("-", sx("div", sx("-", a), b)))
		if op == token.QUO {
			return out(q)
		}
		return out(sub(a, mul(b, q)))
	case token.LSS:
		return out(lt(a, b))
	case token.LEQ:
		return out(le(a, b))
	case token.GTR:
		return out(gt(a, b))
	case token.GEQ:
		return out(ge(a, b))
	case token.AND:
		if m, ok := parseIntLit(b); ok {
			return out(intAndConst(a, m))
		}
		if m, ok := parseIntLit(a); ok {
			return out(intAndConst(b, m))
		}
	}
	vc.unsupported(fr, "64-bit integer op "+op.String())
	return fr.havoc(rt, "intop")
}

// intAndConst expresses x & m for a non-negative x and a constant mask.
func intAndConst(x string, m *big.Int) string {
	if m.Sign() < 0 {
		return x // not expected
	}
	// mask of the form 2^k-1
	k := m.BitLen()
	if new(big.Int).Add(m, big.NewInt(1)).Cmp(pow2(uint(k))) == 0 {
		return sx("mod", x, bigLit(pow2(uint(k))))
	}
	// general: sum of selected bits
	t := "0"
	for i := 0; i < k; i++ {
		if m.Bit(i) == 1 {
			bit := sx("mod", sx("div", x, bigLit(pow2(uint(i)))), "2")
			t = add(t, mul(bit, bigLit(pow2(uint(i)))))
		}
	}
	return t
}

// valEq is Go's == on two values of the same type.
func (fr *Frame) valEq(ins ssa.Instruction, x, y *Val) string {
	t := x.T
	if isIfaceT(t) || isIfaceT(y.T) {
		// comparison with nil is the common case
		if isNilIface(y) {
			return eq(x.L[0], "0")
		}
		if isNilIface(x) {
			return eq(y.L[0], "0")
		}
		return and(eq(x.L[0], y.L[0]), or(eq(x.L[0], "0"), eq(x.L[1], y.L[1])))
	}
	if isStringT(t) {
		if ly, ok := parseIntLit(y.L[1]); ok && ly.Sign() == 0 {
			return eq(x.L[1], "0")
		}
		if lx, ok := parseIntLit(x.L[1]); ok && lx.Sign() == 0 {
			return eq(y.L[1], "0")
		}
		// content comparison: equal length and equal bytes (opaque)
		fr.vc.unsupported(fr, "string equality with non-empty operand (treated as unknown)")
		return fr.vc.fresh("streq", "Bool")
	}
	if isSliceT(t) {
		return eq(x.L[0], y.L[0]) // only comparison with nil is legal
	}
	var cs []string
	for i := range x.L {
		cs = append(cs, eq(x.L[i], y.L[i]))
	}
	return and(cs...)
}

func isNilIface(v *Val) bool {
	return len(v.Tags) == 1 && v.Tags[0] == 0
}

func (fr *Frame) unop(ins *ssa.UnOp) {
	x := fr.get(ins.X)
	switch ins.Op {
	case token.MUL:
		if g, ok := ins.X.(*ssa.Global); ok && fr.vc.w.pkg.Members[g.Name()] == g && g.Name() == "_LEN" {
			// package-level variables keep their initial values (trusted base item 5,
			// write-freedom scan): _LEN is the nil slice
			fr.set(ins, &Val{T: ins.Type(), L: []string{"0", "0", "0"}})
			return
		}
		fr.nilCheck(ins, x.L[0])
		v := fr.load(x.L[0], ins.Type())
		// global maps are known by the loader
		if g, ok := ins.X.(*ssa.Global); ok {
			if m := fr.vc.w.globalMap[g]; m != nil {
				v.Map = m
			}
		}
		fr.set(ins, v)
		fr.loadAssume(x.L[0], ins.Type(), fr.vals[ins])
	case token.NOT:
		fr.set(ins, &Val{T: ins.Type(), L: []string{not(x.L[0])}})
	case token.SUB:
		l, _ := numLeaf(x.T)
		if l.Kind == lkBV {
			fr.set(ins, &Val{T: ins.Type(), L: []string{sx("bvneg", x.L[0])}})
		} else {
			fr.set(ins, &Val{T: ins.Type(), L: []string{sub("0", x.L[0])}})
		}
	case token.XOR:
		l, _ := numLeaf(x.T)
		if l.Kind == lkBV {
			if v, w, ok := parseBvLit(x.L[0]); ok {
				fr.set(ins, &Val{T: ins.Type(), L: []string{bvLit(^v, w)}})
			} else {
				fr.set(ins, &Val{T: ins.Type(), L: []string{sx("bvnot", x.L[0])}})
			}
		} else if l.Signed {
			fr.set(ins, &Val{T: ins.Type(), L: []string{sub(sub("0", x.L[0]), "1")}})
		} else {
			fr.set(ins, &Val{T: ins.Type(), L: []string{sub(bigLit(new(big.Int).Sub(two64, big.NewInt(1))), x.L[0])}})
		}
	default:
		fr.vc.unsupported(fr, "unary op "+ins.Op.String())
		fr.set(ins, fr.havoc(ins.Type(), "unop"))
	}
}

func (fr *Frame) convert(ins *ssa.Convert) {
	x := fr.get(ins.X)
	st, dt := ins.X.Type(), ins.Type()
	ls, oks := numLeaf(st)
	ld, okd := numLeaf(dt)
	if oks && okd {
		fr.set(ins, &Val{T: dt, L: []string{convNum(ls, ld, x.L[0])}})
		return
	}
	u8 := types.Typ[types.Uint8]
	if isStringT(dt) && isSliceT(st) || isSliceT(dt) && isStringT(st) {
		n := x.L[1]
		if fr.vc.specDepth > 0 {
			// inside a contract expression nothing is ever written, so the copy can share the
			// bytes of its source: every read of it gives the same value as a real copy would
			if isStringT(dt) {
				fr.set(ins, &Val{T: dt, L: []string{x.L[0], n}})
			} else {
				fr.set(ins, &Val{T: dt, L: []string{x.L[0], n, n}})
			}
			return
		}
		base := fr.alloc(u8, n)
		fr.copyRange(u8, base, x.L[0], n)
		fr.noteAlloc(n)
		if isStringT(dt) {
			fr.set(ins, &Val{T: dt, L: []string{base, n}})
		} else {
			fr.set(ins, &Val{T: dt, L: []string{base, n, n}})
		}
		return
	}
	fr.vc.unsupported(fr, fmt.Sprintf("conversion %s -> %s", st, dt))
	fr.set(ins, fr.havoc(dt, "conv"))
}

func convNum(ls, ld Leaf, x string) string {
	if ls.Kind != lkBV && ld.Kind != lkBV {
		if ls.Signed == ld.Signed {
			return x
		}
		if n, ok := parseIntLit(x); ok {
			return wrapInt(ld, bigLit(n))
		}
		if ls.Signed { // to unsigned
			return ite(lt(x, "0"), add(x, bigLit(two64)), x)
		}
		return ite(ge(x, bigLit(two63)), sub(x, bigLit(two64)), x)
	}
	if ls.Kind == lkBV && ld.Kind != lkBV {
		n := leafToInt(ls, x)
		if ls.Signed && !ld.Signed {
			return ite(lt(n, "0"), add(n, bigLit(two64)), n)
		}
		return n
	}
	if ls.Kind != lkBV && ld.Kind == lkBV {
		return intToLeaf(ld, x)
	}
	// bv -> bv
	switch {
	case ls.Width == ld.Width:
		return x
	case ls.Width < ld.Width:
		ext := "zero_extend"
		if ls.Signed {
			ext = "sign_extend"
		}
		if v, w, ok := parseBvLit(x); ok && !ls.Signed {
			_ = w
			return bvLit(v, ld.Width)
		}
		return fmt.Sprintf("((_ %s %d) %s)", ext, ld.Width-ls.Width, x)
	default:
		if v, _, ok := parseBvLit(x); ok {
			return bvLit(v, ld.Width)
		}
		return fmt.Sprintf("((_ extract %d 0) %s)", ld.Width-1, x)
	}
}

func (fr *Frame) makeInterface(ins ssa.Value, xv ssa.Value, it types.Type) {
	x := fr.get(xv)
	xt := xv.Type()
	tag := fr.vc.w.typeID(xt)
	var payload string
	if isPtrT(xt) {
		payload = x.L[0]
	} else {
		payload = fr.alloc(xt, "1")
		fr.storeVal(payload, xt, x)
	}
	fr.set(ins, &Val{T: it, L: []string{intLit(int64(tag)), payload}, Tags: []int{tag}, Alts: map[int]string{tag: payload}})
}

func (fr *Frame) typeAssert(ins *ssa.TypeAssert) {
	vc := fr.vc
	x := fr.get(ins.X)
	tag, payload := x.L[0], x.L[1]
	at := ins.AssertedType
	var ok string
	var res *Val
	if isIfaceT(at) {
		iface := at.Underlying().(*types.Interface)
		cands := x.Tags
		if cands == nil {
			cands = vc.w.implementers(iface)
		}
		var cs []string
		var tags []int
		for _, id := range cands {
			if id == 0 {
				continue
			}
			if types.Implements(vc.w.typeByID[id], iface) {
				cs = append(cs, eq(tag, intLit(int64(id))))
				tags = append(tags, id)
			}
		}
		ok = or(cs...)
		if !ins.CommaOk {
			tags2 := tags
			res = &Val{T: at, L: []string{tag, payload}, Tags: tags2}
		} else {
			res = &Val{T: at, L: []string{ite(ok, tag, "0"), ite(ok, payload, "0")}, Tags: append([]int{0}, tags...)}
		}
	} else {
		id := vc.w.typeID(at)
		ok = eq(tag, intLit(int64(id)))
		if x.Tags != nil {
			found := false
			for _, c := range x.Tags {
				if c == id {
					found = true
				}
			}
			if !found {
				ok = tFalse
			}
		}
		if isPtrT(at) {
			res = &Val{T: at, L: []string{ite(ok, payload, "0")}}
		} else {
			res = fr.load(payload, at)
			if ins.CommaOk {
				// zero value when the assertion fails
				zl := flatten(at)
				for i := range res.L {
					res.L[i] = ite(ok, res.L[i], zeroLeaf(zl[i]))
				}
			}
		}
	}
	if ins.CommaOk {
		fr.vals[ins] = &Val{T: ins.Type(), Tup: []*Val{fr.named(ins, res), {T: types.Typ[types.Bool], L: []string{vc.define(fr.prefix+"_ok", "Bool", ok)}}}}
		return
	}
	vc.oblige(fr, ins, "type-assert", 0, ok, "type assertion fails")
	fr.set(ins, res)
}

func (fr *Frame) named(v ssa.Value, val *Val) *Val {
	fr.set(v, val)
	r := fr.vals[v]
	delete(fr.vals, v)
	return r
}

func (w *World) implementers(iface *types.Interface) []int {
	var out []int
	for _, name := range w.pkg.Pkg.Scope().Names() {
		tn, ok := w.pkg.Pkg.Scope().Lookup(name).(*types.TypeName)
		if !ok || tn.IsAlias() {
			continue
		}
		t := tn.Type()
		if _, isI := t.Underlying().(*types.Interface); isI {
			continue
		}
		if types.Implements(t, iface) {
			out = append(out, w.typeID(t))
		}
		pt := types.NewPointer(t)
		if types.Implements(pt, iface) {
			out = append(out, w.typeID(pt))
		}
	}
	return out
}

func (fr *Frame) indexAddr(ins *ssa.IndexAddr) {
	x := fr.get(ins.X)
	idx := fr.toInt(fr.get(ins.Index))
	et := elemOf(ins.Type())
	es := intLit(int64(slots(et)))
	switch u := ins.X.Type().Underlying().(type) {
	case *types.Slice:
		fr.vc.oblige(fr, ins, "index", 0, and(le("0", idx), lt(idx, x.L[1])), "index out of range")
		fr.set(ins, &Val{T: ins.Type(), L: []string{add(x.L[0], mul(idx, es))}})
	case *types.Pointer:
		arr := u.Elem().Underlying().(*types.Array)
		fr.nilCheck(ins, x.L[0])
		fr.vc.oblige(fr, ins, "index", 0, and(le("0", idx), lt(idx, intLit(arr.Len()))), "index out of range")
		fr.set(ins, &Val{T: ins.Type(), L: []string{add(x.L[0], mul(idx, es))}})
	default:
		fr.vc.unsupported(fr, "IndexAddr on "+ins.X.Type().String())
		fr.set(ins, fr.havoc(ins.Type(), "idx"))
	}
}

func (fr *Frame) indexValue(ins *ssa.Index) {
	x := fr.get(ins.X)
	idx := fr.toInt(fr.get(ins.Index))
	arr, ok := ins.X.Type().Underlying().(*types.Array)
	if !ok {
		fr.vc.unsupported(fr, "Index on "+ins.X.Type().String())
		fr.set(ins, fr.havoc(ins.Type(), "idx"))
		return
	}
	n := int(arr.Len())
	fr.vc.oblige(fr, ins, "index", 0, and(le("0", idx), lt(idx, intLit(int64(n)))), "index out of range")
	k := len(flatten(arr.Elem()))
	res := &Val{T: ins.Type(), L: make([]string, k)}
	for j := 0; j < k; j++ {
		t := x.L[(n-1)*k+j]
		for i := n - 2; i >= 0; i-- {
			t = ite(eq(idx, intLit(int64(i))), x.L[i*k+j], t)
		}
		res.L[j] = t
	}
	fr.set(ins, res)
}

func (fr *Frame) lookup(ins *ssa.Lookup) {
	vc := fr.vc
	x := fr.get(ins.X)
	if isStringT(ins.X.Type()) {
		idx := fr.toInt(fr.get(ins.Index))
		vc.oblige(fr, ins, "index", 0, and(le("0", idx), lt(idx, x.L[1])), "string index out of range")
		fr.set(ins, fr.load(add(x.L[0], idx), types.Typ[types.Uint8]))
		return
	}
	mt := ins.X.Type().Underlying().(*types.Map)
	k := fr.get(ins.Index)
	var res *Val
	var ok string
	if x.Map == nil || x.Map.opaque {
		res = fr.havoc(mt.Elem(), "mapv")
		ok = vc.fresh("mapok", "Bool")
		if u, isLoad := ins.X.(*ssa.UnOp); isLoad && isStringT(mt.Elem()) {
			if _, isG := u.X.(*ssa.Global); isG {
				// the values of a package-level map literal of strings are constants (static data)
				vc.assume(le(add(res.L[0], res.L[1]), intLit(staticEnd)))
			}
		}
	} else {
		zl := flatten(mt.Elem())
		res = &Val{T: mt.Elem()}
		for _, l := range zl {
			res.L = append(res.L, zeroLeaf(l))
		}
		if _, isF := mt.Elem().Underlying().(*types.Signature); isF {
			res.Fn = []int{0}
		}
		ok = tFalse
		for i := len(x.Map.keys) - 1; i >= 0; i-- {
			c := eq(k.L[0], x.Map.keys[i])
			res = iteVal(vc, c, x.Map.vals[i], res)
			ok = or(c, ok)
		}
	}
	if ins.CommaOk {
		fr.vals[ins] = &Val{T: ins.Type(), Tup: []*Val{fr.named(ins, res), {T: types.Typ[types.Bool], L: []string{vc.define(fr.prefix+"_ok", "Bool", ok)}}}}
		return
	}
	fr.set(ins, res)
}

func (fr *Frame) next(ins *ssa.Next) {
	vc := fr.vc
	itv := fr.vals[ins.Iter]
	tup := ins.Type().(*types.Tuple)
	if itv == nil || itv.Iter == nil || itv.Iter.m == nil || itv.Iter.m.opaque {
		vc.unsupported(fr, "range over an unknown map or string")
		fr.vals[ins] = fr.havoc(tup, "next")
		return
	}
	pos, okp := fr.iterPos[itv.Iter]
	if !okp {
		vc.unsupported(fr, "map iterator used outside an unrolled loop")
		fr.vals[ins] = fr.havoc(tup, "next")
		return
	}
	m := itv.Iter.m
	bt := types.Typ[types.Bool]
	if pos < len(m.keys) {
		fr.vals[ins] = &Val{T: tup, Tup: []*Val{{T: bt, L: []string{tTrue}}, m.keyVals[pos], m.vals[pos]}}
		return
	}
	kz := &Val{T: m.keyT}
	for _, l := range flatten(m.keyT) {
		kz.L = append(kz.L, zeroLeaf(l))
	}
	vz := &Val{T: m.elemT}
	for _, l := range flatten(m.elemT) {
		vz.L = append(vz.L, zeroLeaf(l))
	}
	vz.Fn = []int{0}
	fr.vals[ins] = &Val{T: tup, Tup: []*Val{{T: bt, L: []string{tFalse}}, kz, vz}}
}

func (fr *Frame) slice(ins *ssa.Slice) {
	vc := fr.vc
	x := fr.get(ins.X)
	var lo, hi, mx string
	if ins.Low != nil {
		lo = fr.toInt(fr.get(ins.Low))
	} else {
		lo = "0"
	}
	switch u := ins.X.Type().Underlying().(type) {
	case *types.Slice:
		base, ln, cp := x.L[0], x.L[1], x.L[2]
		hi = ln
		if ins.High != nil {
			hi = fr.toInt(fr.get(ins.High))
		}
		mx = cp
		if ins.Max != nil {
			mx = fr.toInt(fr.get(ins.Max))
		}
		vc.oblige(fr, ins, "slice", 0, and(le("0", lo), le(lo, hi), le(hi, mx), le(mx, cp)), "slice bounds out of range")
		es := intLit(int64(slots(u.Elem())))
		fr.set(ins, &Val{T: ins.Type(), L: []string{add(base, mul(lo, es)), sub(hi, lo), sub(mx, lo)}})
	case *types.Basic: // string
		base, ln := x.L[0], x.L[1]
		hi = ln
		if ins.High != nil {
			hi = fr.toInt(fr.get(ins.High))
		}
		vc.oblige(fr, ins, "slice", 0, and(le("0", lo), le(lo, hi), le(hi, ln)), "slice bounds out of range")
		fr.set(ins, &Val{T: ins.Type(), L: []string{add(base, lo), sub(hi, lo)}})
	case *types.Pointer:
		arr := u.Elem().Underlying().(*types.Array)
		fr.nilCheck(ins, x.L[0])
		n := intLit(arr.Len())
		hi = n
		if ins.High != nil {
			hi = fr.toInt(fr.get(ins.High))
		}
		mx = n
		if ins.Max != nil {
			mx = fr.toInt(fr.get(ins.Max))
		}
		vc.oblige(fr, ins, "slice", 0, and(le("0", lo), le(lo, hi), le(hi, mx), le(mx, n)), "slice bounds out of range")
		es := intLit(int64(slots(arr.Elem())))
		fr.set(ins, &Val{T: ins.Type(), L: []string{add(x.L[0], mul(lo, es)), sub(hi, lo), sub(mx, lo)}})
	default:
		vc.unsupported(fr, "slice of "+ins.X.Type().String())
		fr.set(ins, fr.havoc(ins.Type(), "slice"))
	}
}
