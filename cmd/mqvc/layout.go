package main

// Memory layout: every Go value is flattened into leaves of primitive SMT
// sorts (Bool, Int, bit-vector). Addressable memory is a set of "slots";
// each slot holds one non-aggregate Go value (scalar, pointer, slice header,
// string header, interface, func, map) and is stored in per-type heap arrays
// (one array per leaf of the slot's type). Struct and array values occupy
// consecutive slots.

import (
	"fmt"
	"go/types"
	"regexp"
	"strings"
)

type leafKind int

const (
	lkBool leafKind = iota
	lkInt           // mathematical Int for 64-bit ints
	lkBV            // narrow ints
	lkPtr           // address (Int)
	lkBase          // slice/string data address
	lkLen
	lkCap
	lkTag  // interface type tag
	lkIval // interface payload (address)
	lkFn   // func value id
	lkMap  // map id
)

type Leaf struct {
	Sort   string
	Slot   int    // slot offset of the cell this leaf belongs to
	Key    string // heap array base name
	Kind   leafKind
	Signed bool
	Width  int        // for lkBV / lkInt (64)
	Cell   types.Type // Go type of the cell
}

func pkgQual(p *types.Package) string { return p.Name() }

func typeKey(t types.Type) string {
	return sanitize(typeStr(t))
}

var reByte = regexp.MustCompile(`(^|[^\w.])byte($|[^\w])`)
var reRune = regexp.MustCompile(`(^|[^\w.])rune($|[^\w])`)

// typeStr is the canonical name of a type (byte and rune are uint8/int32).
// deepUnalias removes type aliases also below pointers, slices and arrays (*wuint8 is *bits).
func deepUnalias(t types.Type) types.Type {
	t = types.Unalias(t)
	switch u := t.(type) {
	case *types.Pointer:
		if e := deepUnalias(u.Elem()); e != u.Elem() {
			return types.NewPointer(e)
		}
	case *types.Slice:
		if e := deepUnalias(u.Elem()); e != u.Elem() {
			return types.NewSlice(e)
		}
	case *types.Array:
		if e := deepUnalias(u.Elem()); e != u.Elem() {
			return types.NewArray(e, u.Len())
		}
	}
	return t
}

func typeStr(t types.Type) string {
	s := types.TypeString(deepUnalias(t), pkgQual)
	for reByte.MatchString(s) {
		s = reByte.ReplaceAllString(s, "${1}uint8${2}")
	}
	for reRune.MatchString(s) {
		s = reRune.ReplaceAllString(s, "${1}int32${2}")
	}
	return s
}

var layoutCache = map[string][]Leaf{}
var slotsCache = map[string]int{}

// slots returns the number of slots occupied by a value of type t.
func slots(t types.Type) int {
	k := typeStr(t)
	if n, ok := slotsCache[k]; ok {
		return n
	}
	n := 1
	switch u := t.Underlying().(type) {
	case *types.Struct:
		n = 0
		for i := 0; i < u.NumFields(); i++ {
			n += slots(u.Field(i).Type())
		}
	case *types.Array:
		n = int(u.Len()) * slots(u.Elem())
	case *types.Tuple:
		n = 0
		for i := 0; i < u.Len(); i++ {
			n += slots(u.At(i).Type())
		}
	}
	slotsCache[k] = n
	return n
}

// allocSlots is slots but at least one (so every allocation has a distinct
// address).
func allocSlots(t types.Type) int {
	if n := slots(t); n > 0 {
		return n
	}
	return 1
}

func fieldSlotOffset(st *types.Struct, idx int) int {
	off := 0
	for i := 0; i < idx; i++ {
		off += slots(st.Field(i).Type())
	}
	return off
}

// flatten returns the leaves of type t, with slot offsets relative to the
// start of the value.
func flatten(t types.Type) []Leaf {
	k := typeStr(t)
	if l, ok := layoutCache[k]; ok {
		return l
	}
	var out []Leaf
	switch u := t.Underlying().(type) {
	case *types.Struct:
		off := 0
		for i := 0; i < u.NumFields(); i++ {
			for _, l := range flatten(u.Field(i).Type()) {
				l.Slot += off
				out = append(out, l)
			}
			off += slots(u.Field(i).Type())
		}
	case *types.Array:
		es := slots(u.Elem())
		el := flatten(u.Elem())
		for i := 0; i < int(u.Len()); i++ {
			for _, l := range el {
				l.Slot += i * es
				out = append(out, l)
			}
		}
	case *types.Tuple:
		off := 0
		for i := 0; i < u.Len(); i++ {
			for _, l := range flatten(u.At(i).Type()) {
				l.Slot += off
				out = append(out, l)
			}
			off += slots(u.At(i).Type())
		}
	default:
		out = cellLeaves(t)
	}
	layoutCache[k] = out
	return out
}

func cellLeaves(t types.Type) []Leaf {
	key := "H_" + typeKey(t)
	mk := func(suffix, sort string, kind leafKind) Leaf {
		return Leaf{Sort: sort, Key: key + suffix, Kind: kind, Cell: t, Width: 64}
	}
	switch u := t.Underlying().(type) {
	case *types.Basic:
		info := u.Info()
		switch {
		case info&types.IsBoolean != 0:
			return []Leaf{mk("", "Bool", lkBool)}
		case info&types.IsString != 0:
			return []Leaf{mk(".b", "Int", lkBase), mk(".l", "Int", lkLen)}
		case info&types.IsInteger != 0:
			w, signed := intWidth(u)
			if w == 64 {
				l := mk("", "Int", lkInt)
				l.Signed = signed
				return []Leaf{l}
			}
			l := mk("", fmt.Sprintf("(_ BitVec %d)", w), lkBV)
			l.Width = w
			l.Signed = signed
			return []Leaf{l}
		case u.Kind() == types.UnsafePointer:
			return []Leaf{mk("", "Int", lkPtr)}
		case u.Kind() == types.UntypedNil:
			return []Leaf{mk("", "Int", lkPtr)}
		}
		panic("unsupported basic type " + t.String())
	case *types.Pointer:
		return []Leaf{mk("", "Int", lkPtr)}
	case *types.Slice:
		return []Leaf{mk(".b", "Int", lkBase), mk(".l", "Int", lkLen), mk(".c", "Int", lkCap)}
	case *types.Interface:
		return []Leaf{mk(".t", "Int", lkTag), mk(".v", "Int", lkIval)}
	case *types.Signature:
		return []Leaf{mk("", "Int", lkFn)}
	case *types.Map:
		return []Leaf{mk("", "Int", lkMap)}
	case *types.Chan:
		return []Leaf{mk("", "Int", lkPtr)}
	}
	panic("unsupported cell type " + t.String())
}

func intWidth(b *types.Basic) (int, bool) {
	switch b.Kind() {
	case types.Int8:
		return 8, true
	case types.Int16:
		return 16, true
	case types.Int32:
		return 32, true
	case types.Int64, types.Int, types.UntypedInt, types.UntypedRune:
		return 64, true
	case types.Uint8:
		return 8, false
	case types.Uint16:
		return 16, false
	case types.Uint32:
		return 32, false
	case types.Uint64, types.Uint, types.Uintptr:
		return 64, false
	}
	panic("intWidth: " + b.String())
}

func zeroLeaf(l Leaf) string {
	switch l.Kind {
	case lkBool:
		return tFalse
	case lkBV:
		return bvLit(0, l.Width)
	}
	return "0"
}

func isSliceT(t types.Type) bool {
	_, ok := t.Underlying().(*types.Slice)
	return ok
}
func isStringT(t types.Type) bool {
	b, ok := t.Underlying().(*types.Basic)
	return ok && b.Info()&types.IsString != 0
}
func isIfaceT(t types.Type) bool {
	_, ok := t.Underlying().(*types.Interface)
	return ok
}
func isPtrT(t types.Type) bool {
	_, ok := t.Underlying().(*types.Pointer)
	return ok
}
func elemOf(t types.Type) types.Type {
	switch u := t.Underlying().(type) {
	case *types.Slice:
		return u.Elem()
	case *types.Array:
		return u.Elem()
	case *types.Pointer:
		return u.Elem()
	case *types.Basic:
		if u.Info()&types.IsString != 0 {
			return types.Typ[types.Uint8]
		}
	case *types.Map:
		return u.Elem()
	}
	panic("elemOf " + t.String())
}

func shortFuncName(s string) string {
	s = strings.ReplaceAll(s, "github.com/gregoryv/mq.", "")
	return s
}
