package main

import (
	"sort"

	"golang.org/x/tools/go/ssa"
)

type Loop struct {
	head    *ssa.BasicBlock
	blocks  map[*ssa.BasicBlock]bool
	ord     int
	latches []*ssa.BasicBlock
}

// findLoops returns the natural loops of fn keyed by header.
func findLoops(fn *ssa.Function) map[*ssa.BasicBlock]*Loop {
	loops := map[*ssa.BasicBlock]*Loop{}
	for _, u := range fn.Blocks {
		for _, h := range u.Succs {
			if h.Dominates(u) {
				l := loops[h]
				if l == nil {
					l = &Loop{head: h, blocks: map[*ssa.BasicBlock]bool{h: true}}
					loops[h] = l
				}
				l.latches = append(l.latches, u)
				// collect body: predecessors of u up to h
				stack := []*ssa.BasicBlock{u}
				for len(stack) > 0 {
					x := stack[len(stack)-1]
					stack = stack[:len(stack)-1]
					if l.blocks[x] {
						continue
					}
					l.blocks[x] = true
					for _, p := range x.Preds {
						stack = append(stack, p)
					}
				}
			}
		}
	}
	var heads []*ssa.BasicBlock
	for h := range loops {
		heads = append(heads, h)
	}
	sort.Slice(heads, func(i, j int) bool { return heads[i].Index < heads[j].Index })
	for i, h := range heads {
		loops[h].ord = i
	}
	return loops
}

// rpo returns the blocks of fn reachable from entry in reverse postorder,
// ignoring back edges (edges to a dominator).
func rpo(fn *ssa.Function) []*ssa.BasicBlock {
	seen := map[*ssa.BasicBlock]bool{}
	var post []*ssa.BasicBlock
	var dfs func(b *ssa.BasicBlock)
	dfs = func(b *ssa.BasicBlock) {
		seen[b] = true
		for _, s := range b.Succs {
			if s.Dominates(b) || seen[s] {
				continue
			}
			dfs(s)
		}
		post = append(post, b)
	}
	if len(fn.Blocks) > 0 {
		dfs(fn.Blocks[0])
	}
	for i, j := 0, len(post)-1; i < j; i, j = i+1, j-1 {
		post[i], post[j] = post[j], post[i]
	}
	return post
}
