package main

import (
	"fmt"
	"go/ast"
	"go/constant"
	"go/token"
	"go/types"
	"os"
	"sort"
	"strings"

	"golang.org/x/tools/go/packages"
	"golang.org/x/tools/go/ssa"
	"golang.org/x/tools/go/ssa/ssautil"
)

var repoDir = "/repo"

func loadWorld() *World {
	if d := os.Getenv("MQVC_REPO"); d != "" {
		repoDir = d
	}
	cfg := &packages.Config{Mode: packages.LoadAllSyntax, Dir: repoDir, BuildFlags: []string{"-tags=verif"},
		Env: append(os.Environ(), "GOFLAGS=-mod=mod", "GOPROXY=off", "GOSUMDB=off", "GOTOOLCHAIN=local")}
	pkgs, err := packages.Load(cfg, ".")
	if err != nil {
		fatal("load: %v", err)
	}
	if packages.PrintErrors(pkgs) > 0 {
		fatal("package has errors")
	}
	prog, spkgs := ssautil.AllPackages(pkgs, ssa.GlobalDebug|ssa.InstantiateGenerics)
	prog.Build()
	w := &World{prog: prog, pkg: spkgs[0], fset: prog.Fset,
		typeIDs: map[string]int{}, typeByID: map[int]types.Type{},
		siteOrd: map[siteKey]int{}, siteCnt: map[string]int{},
		globals: map[*ssa.Global]int64{}, strLits: map[string]int64{}, staticTop: 16,
		funcs: map[string]*ssa.Function{}, loopsOf: map[*ssa.Function]map[*ssa.BasicBlock]*Loop{},
		globalMap: map[*ssa.Global]*SymMap{}}
	for fn := range ssautil.AllFunctions(prog) {
		w.funcs[shortFuncName(fn.String())] = fn
	}
	if u := os.Getenv("MQVC_UNROLL"); u != "" {
		fmt.Sscan(u, &w.unroll)
	}
	w.propForInv = os.Getenv("MQVC_PROP_INTERNAL")
	w.scanGlobalInits(pkgs[0])
	w.contracts, err = readContracts(repoDir + "/contracts_verif.go")
	if err != nil {
		fatal("contracts: %v", err)
	}
	// expand type invariants over the exported methods of the receiver type
	for _, ti := range typeInvariants {
		var names []string
		for name, fn := range w.funcs {
			if strings.HasPrefix(name, ti.Recv+".") && fn.Signature.Recv() != nil && ast.IsExported(fn.Name()) && fn.Synthetic == "" {
				names = append(names, name)
			}
		}
		sort.Strings(names)
		for _, name := range names {
			c := w.contracts[name]
			if c == nil {
				c = &Contract{Func: name, Loops: map[int]*LoopContract{}, Inline: true}
				w.contracts[name] = c
			}
			c.Requires = append(c.Requires, ti.Clause)
			c.Ensures = append(c.Ensures, ti.Clause)
			if clauseActive(ti.Clause.Tags, w.propForInv) {
				w.invariantMethods = append(w.invariantMethods, name)
			}
		}
	}
	for name := range w.contracts {
		if w.funcs[name] == nil {
			fatal("contract for unknown function %q", name)
		}
	}
	return w
}

func fatal(format string, a ...interface{}) {
	fmt.Fprintf(os.Stderr, "mqvc: "+format+"\n", a...)
	os.Exit(2)
}

// buildVC symbolically executes fn as a root and returns its VC.
func (w *World) buildVC(fn *ssa.Function) *VC {
	vc := newVC(w, fn)
	vc.cmd("(declare-const wm0 Int)")
	vc.cmd(fmt.Sprintf("(assert (and (>= wm0 %d) (<= wm0 1152921504606846976)))", staticEnd))
	st := &State{heap: map[string]string{}, ghost: map[string]string{}, wm: "wm0", epoch: map[string][2]string{}}
	fr := vc.newFrame(fn, nil)
	fr.isRoot = true
	fr.st = st
	fr.reach = tTrue
	for i, p := range fn.Params {
		v := fr.havoc(p.Type(), "p_"+p.Name())
		fr.vals[p] = v
		fr.params[p.Name()] = v
		if i == 0 && fn.Signature.Recv() != nil {
			fr.params["self"] = v
		}
		if i == 0 && fn.Signature.Recv() != nil && isPtrT(p.Type()) {
			vc.assume(neq(v.L[0], "0")) // a method is verified for non-nil receivers
			vc.assume(le(intLit(staticEnd), v.L[0]))
		}
	}
	for _, fv := range fn.FreeVars {
		fr.vals[fv] = fr.havoc(fv.Type(), "fv_"+fv.Name())
	}
	// Go objects do not partially overlap: two struct pointers among the parameters
	// are the same object (same type) or denote disjoint memory
	for i, p := range fn.Params {
		if !isStructPtr(p.Type()) {
			continue
		}
		vc.rootObjs = append(vc.rootObjs, rootObj{fr.vals[p].L[0], elemOf(p.Type())})
		for _, q := range fn.Params[:i] {
			if isStructPtr(q.Type()) {
				vc.assume(objApart(fr.vals[p].L[0], elemOf(p.Type()), fr.vals[q].L[0], elemOf(q.Type())))
			}
		}
	}
	w.globalAssumptions(vc, fr)
	if len(w.secrets) > 0 && w.taintRoots[shortFuncName(fn.String())] {
		// information-flow mode: a ghost taint map over bytes; for functions of
		// other receivers it is arbitrary and constrained by their preconditions
		vc.taint = true
		rememberLeaf(taintLeaf)
		vc.declared["G_taint_0"] = true
		vc.decls = append(vc.decls, "(declare-const G_taint_0 (Array Int Bool))")
	}
	if vc.taint && !(fn.Signature.Recv() != nil && typeStr(fn.Params[0].Type()) == w.secretRecv) {
		// abstract secrets: arbitrary, except that constants (static data) are never secret
		vc.naxiom++
		ax := &axiomRec{id: vc.naxiom, born: len(vc.items), old: "", inst: func(idx string) (string, []string) {
			return imp(lt(idx, intLit(staticEnd)), not(sel("G_taint_0", idx))), nil
		}}
		vc.axioms["G_taint"] = append(vc.axioms["G_taint"], ax)
		vc.axiomOf["G_taint_0"] = ax
		vc.assume(fmt.Sprintf("(forall ((a Int)) (! (=> (< a %d) (not (select G_taint_0 a))) :pattern ((select G_taint_0 a))))", staticEnd))
	}
	if vc.taint && fn.Signature.Recv() != nil && typeStr(fn.Params[0].Type()) == w.secretRecv {
		// the bytes of the named byte slices are the secrets
		var regions [][2]string
		for _, src := range w.secrets {
			n, err := parseSpec(src)
			if err != nil {
				fatal("secret %q: %v", src, err)
			}
			v := fr.evalNode(n, fr.params, st, st)
			if v == nil || len(v.L) < 2 {
				fatal("secret %q is not a byte slice (%v)", src, vc.unsup)
			}
			regions = append(regions, [2]string{v.L[0], add(v.L[0], v.L[1])})
		}
		inRegion := func(idx string) string {
			var cs []string
			for _, r := range regions {
				cs = append(cs, and(le(r[0], idx), lt(idx, r[1])))
			}
			return or(cs...)
		}
		vc.naxiom++
		ax := &axiomRec{id: vc.naxiom, born: len(vc.items), old: "", inst: func(idx string) (string, []string) {
			return eq(sel("G_taint_0", idx), inRegion(idx)), nil
		}}
		vc.axioms["G_taint"] = append(vc.axioms["G_taint"], ax)
		vc.axiomOf["G_taint_0"] = ax
		vc.assume(fmt.Sprintf("(forall ((a Int)) (! (= (select G_taint_0 a) %s) :pattern ((select G_taint_0 a))))", inRegion("a")))
	}
	if c := fr.contract; c != nil {
		vc.curLets = c.Lets
		for _, r := range c.Requires {
			vc.assume(fr.evalBool(r.Expr, fr.params, st, st))
		}
	}
	vc.curLets = nil
	fr.entry = st.clone()
	if len(fn.Blocks) == 0 {
		vc.unsupported(fr, "function without body")
		return vc
	}
	func() {
		defer func() {
			if r := recover(); r != nil {
				// a construct the generator cannot handle: the function is reported as not verified
				if os.Getenv("MQVC_PANIC") != "" {
					panic(r)
				}
				vc.unsupported(fr, fmt.Sprintf("generator failure: %v", r))
			}
		}()
		fr.execRegion(nil, fn.Blocks[0], []*Edge{{cond: tTrue, st: st}}, nil, false)
	}()
	return vc
}

// globalAssumptions states the initial values of package-level variables
// (trusted base item 5: no function of the package stores to them; checked
// by the write-freedom scan).
func (w *World) globalAssumptions(vc *VC, fr *Frame) {
	for _, name := range []string{"_LEN"} {
		if g, ok := w.pkg.Members[name].(*ssa.Global); ok {
			v := fr.load(intLit(w.globalAddr(g)), elemOf(g.Type()))
			for _, l := range v.L {
				vc.assume(eq(l, "0"))
			}
		}
	}
	var gs []*ssa.Global
	for g := range w.arrInit {
		gs = append(gs, g)
	}
	sort.Slice(gs, func(i, j int) bool { return gs[i].Name() < gs[j].Name() })
	for _, g := range gs {
		at := elemOf(g.Type()).Underlying().(*types.Array)
		lf := flatten(at.Elem())[0]
		rememberLeaf(lf)
		base := w.globalAddr(g)
		for i, e := range w.arrInit[g] {
			vc.assume(eq(sel(vc.arr(fr.st, lf), intLit(base+int64(i))), e))
		}
	}
	gs = nil
	for g := range w.strInit {
		gs = append(gs, g)
	}
	sort.Slice(gs, func(i, j int) bool { return gs[i].Name() < gs[j].Name() })
	for _, g := range gs {
		s := w.strInit[g]
		v := fr.load(intLit(w.globalAddr(g)), elemOf(g.Type()))
		data := w.strLitAddr("\x00slice:" + g.Name() + ":" + s)
		vc.assume(and(eq(v.L[0], intLit(data)), eq(v.L[1], intLit(int64(len(s)))), eq(v.L[2], intLit(int64(len(s))))))
		u8 := flatten(types.Typ[types.Uint8])[0]
		rememberLeaf(u8)
		for i := 0; i < len(s); i++ {
			vc.assume(eq(sel(vc.arr(fr.st, u8), intLit(data+int64(i))), bvLit(uint64(s[i]), 8)))
		}
	}
	errGlobals := []*ssa.Global{}
	if g, ok := w.pkg.Members["ErrMissingData"].(*ssa.Global); ok {
		errGlobals = append(errGlobals, g)
	}
	for _, p := range w.prog.AllPackages() {
		if p.Pkg.Path() == "io" {
			for _, n := range []string{"EOF", "ErrUnexpectedEOF", "ErrShortBuffer"} {
				if g, ok := p.Members[n].(*ssa.Global); ok {
					errGlobals = append(errGlobals, g)
				}
			}
		}
	}
	var prev []*Val
	for _, g := range errGlobals {
		v := fr.load(intLit(w.globalAddr(g)), elemOf(g.Type()))
		vc.assume(gt(v.L[0], "0"))
		vc.assume(and(le("0", v.L[1]), lt(v.L[1], "wm0")))
		for _, p := range prev {
			vc.assume(neq(v.L[1], p.L[1])) // distinct error values
		}
		prev = append(prev, v)
	}
}

// scanGlobalInits records the constant initial contents of package-level
// arrays (`var x = [...]T{c0, c1, ...}`) and byte slices (`var x = []byte("lit")`).
func (w *World) scanGlobalInits(pkg *packages.Package) {
	w.arrInit = map[*ssa.Global][]string{}
	w.strInit = map[*ssa.Global]string{}
	for _, f := range pkg.Syntax {
		for _, d := range f.Decls {
			gd, ok := d.(*ast.GenDecl)
			if !ok || gd.Tok != token.VAR {
				continue
			}
			for _, sp := range gd.Specs {
				vs := sp.(*ast.ValueSpec)
				if len(vs.Names) != len(vs.Values) {
					continue
				}
				for i, name := range vs.Names {
					g, ok := w.pkg.Members[name.Name].(*ssa.Global)
					if !ok {
						continue
					}
					switch v := vs.Values[i].(type) {
					case *ast.CompositeLit:
						at, ok := elemOf(g.Type()).Underlying().(*types.Array)
						if !ok {
							continue
						}
						l, okn := numLeaf(at.Elem())
						if !okn {
							continue
						}
						var elts []string
						good := true
						for _, e := range v.Elts {
							tv, ok := pkg.TypesInfo.Types[e]
							if !ok || tv.Value == nil {
								good = false
								break
							}
							n, _ := constant.Int64Val(constant.ToInt(tv.Value))
							elts = append(elts, intToLeaf(l, intLit(n)))
						}
						if good && int64(len(elts)) == at.Len() {
							w.arrInit[g] = elts
						}
					case *ast.CallExpr:
						if len(v.Args) == 1 {
							if tv, ok := pkg.TypesInfo.Types[v.Args[0]]; ok && tv.Value != nil && tv.Value.Kind() == constant.String && isSliceT(elemOf(g.Type())) {
								w.strInit[g] = constant.StringVal(tv.Value)
							}
						}
					}
				}
			}
		}
	}
}

func main() {
	if len(os.Args) < 2 {
		fatal("usage: mqvc <dump|verify|check|list> ...")
	}
	switch os.Args[1] {
	case "dump":
		w := loadWorld()
		w.setPropFromEnv()
		for _, name := range os.Args[2:] {
			fn := w.funcs[name]
			if fn == nil {
				fatal("no function %q", name)
			}
			vc := w.buildVC(fn)
			fmt.Print(vc.script(os.Getenv("MQVC_RELAXED") != ""))
			for _, u := range vc.unsup {
				fmt.Println("; UNSUPPORTED:", u)
			}
		}
	case "list":
		w := loadWorld()
		var names []string
		for n := range w.funcs {
			names = append(names, n)
		}
		sort.Strings(names)
		fmt.Println(strings.Join(names, "\n"))
	case "verify":
		w := loadWorld()
		w.setPropFromEnv()
		bad := 0
		for _, name := range os.Args[2:] {
			fn := w.funcs[name]
			if fn == nil {
				fatal("no function %q", name)
			}
			vc := w.buildVC(fn)
			rs := solveVC(vc, solveOpts{timeoutMs: 10000})
			for _, r := range rs {
				fmt.Printf("%-8s %-7s %6.2fs %s  %s\n", r.Status, r.Solver, r.Secs, r.Ob.Name, r.Ob.Desc)
				if r.Status != "unsat" {
					bad++
				}
			}
			for _, u := range vc.unsup {
				fmt.Println("UNSUPPORTED:", u)
			}
			for _, n := range vc.notes {
				fmt.Println("note:", n)
			}
		}
		if bad > 0 {
			os.Exit(1)
		}
	case "standalone":
		// mqvc standalone <func> <obligation>: print the self-contained query
		w := loadWorld()
		w.setPropFromEnv()
		vc := w.buildVC(w.funcs[os.Args[2]])
		for _, ob := range vc.obligations() {
			if ob.Name == os.Args[3] {
				fmt.Print(vc.standalone(ob, os.Getenv("MQVC_RELAXED") != "", nil))
				return
			}
		}
		fatal("no such obligation")
	case "harness":
		// mqvc harness c03|reject: run a replay harness against /repo's current tree and print its output
		src := c03Harness
		if len(os.Args) > 2 && os.Args[2] == "reject" {
			src = rejectHarness
		}
		out, _ := runOverlayTest(src, false)
		fmt.Print(out)
	case "check":
		os.Exit(runCheck(os.Args[2:]))
	default:
		fatal("unknown command %s", os.Args[1])
	}
}

var _ = token.NoPos

type rootObj struct {
	addr string
	t    types.Type
}

func isStructPtr(t types.Type) bool {
	pt, ok := t.Underlying().(*types.Pointer)
	if !ok {
		return false
	}
	_, ok = pt.Elem().Underlying().(*types.Struct)
	return ok
}

// objApart: object a (type ta) and object b (type tb) are nil, the same object
// of the same type, or do not overlap.
func objApart(a string, ta types.Type, b string, tb types.Type) string {
	na, nb := intLit(int64(allocSlots(ta))), intLit(int64(allocSlots(tb)))
	alts := []string{eq(a, "0"), eq(b, "0"), le(add(a, na), b), le(add(b, nb), a)}
	if types.Identical(ta, tb) {
		alts = append(alts, eq(a, b))
	}
	return or(alts...)
}

// setPropFromEnv selects the clauses of one property (MQVC_PROP) for the debugging commands.
func (w *World) setPropFromEnv() {
	p := os.Getenv("MQVC_PROP")
	if p == "" {
		return
	}
	w.prop = p
	w.applyOnlyFor()
	if spec := propSpecs[p]; spec != nil {
		w.secrets, w.secretRecv = spec.Secrets, spec.SecretRecv
		w.taintRoots = map[string]bool{}
		for _, r := range spec.Roots {
			w.taintRoots[r] = true
		}
		w.forceInline = map[string]bool{}
		for _, f := range spec.ForceInline {
			w.forceInline[f] = true
		}
	}
}

// applyOnlyFor: a contract marked only-for some properties is an ordinary inlined function elsewhere.
func (w *World) applyOnlyFor() {
	for _, c := range w.contracts {
		if len(c.OnlyFor) == 0 {
			continue
		}
		on := false
		for _, p := range c.OnlyFor {
			if p == w.prop {
				on = true
			}
		}
		if !on {
			c.Inline = true
		}
	}
}
