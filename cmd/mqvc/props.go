package main

// Properties: which functions are verified as roots for each property.

var packetTypes = []string{"Connect", "ConnAck", "Publish", "PubAck", "PubRec", "PubRel", "PubComp",
	"Subscribe", "SubAck", "Unsubscribe", "UnsubAck", "PingReq", "PingResp", "Disconnect", "Auth"}

func methodsOf(types []string, m string) []string {
	var out []string
	for _, t := range types {
		out = append(out, "(*"+t+")."+m)
	}
	return out
}

var propSpecs = map[string]*PropSpec{}

func init() {
	decodeRoots := append([]string{"ReadPacket", "(*fixedHeader).ReadFrom", "(*fixedHeader).ReadRemaining"},
		methodsOf(append(append([]string{}, packetTypes...), "Undefined"), "UnmarshalBinary")...)
	renderRoots := append(methodsOf(packetTypes, "String"), "(*Undefined).String")
	for _, t := range packetTypes {
		if t != "PingReq" && t != "PingResp" {
			renderRoots = append(renderRoots, "(*"+t+").dump")
		}
	}
	renderRoots = append(renderRoots, "Dump", "(firstByte).String", "(connectFlags).String", "(connAckFlags).String",
		"(TopicFilter).String", "(ReasonCode).String", "(UserProp).String", "(*UserProperties).dump",
		"(*Malformed).Error", "(*Publish).WellFormed", "(*Subscribe).WellFormed", "(*TopicFilter).WellFormed",
		// representation invariant of Connect (will flag => will != nil): established by the
		// constructor; preservation by every exported method is added from the type-invariant directive
		"NewConnect")
	propSpecs["C19"] = &PropSpec{ID: "C19", Roots: renderRoots, InvariantMethods: true,
		Note: "all panic obligations of String, dump, Dump and of the table-driven renderings are discharged for every packet value satisfying the representation invariant (CONNECT: will flag set implies a will message is attached), which is proved to hold for constructor results and to be preserved by every mutator that touches the flag byte or the will, and by UnmarshalBinary also when it fails"}
	propSpecs["C05"] = &PropSpec{ID: "C05", Roots: decodeRoots,
		Note: "every loop on the decode path carries a variant that is proved non-negative and strictly decreasing (getAny, the filter loops, the reason-code loops, the variable-byte-integer loops), so iterations are bounded by the frame length; the number of list elements appended during one decode (ghost counter $elems: user properties, subscription identifiers, topic filters) and the reason-code list are proved <= len(data); every make() on the decode path is sized by bytes present in the frame (string length <= remaining bytes, reason codes = remaining bytes, frame buffer = declared remaining length <= 268435455)"}
	propSpecs["C04"] = &PropSpec{ID: "C04", Roots: decodeRoots,
		Note: "every automatically generated panic obligation (index, slice, nil dereference, type assertion, make, explicit panic, nil call) of ReadPacket and of the 16 UnmarshalBinary methods and of everything they call is discharged for arbitrary input bytes; plus the (packet, error) pair postcondition of ReadPacket/ReadRemaining"}
}
