package main

// Properties: which functions are verified as roots for each property.

var packetTypes = []string{"Connect", "ConnAck", "Publish", "PubAck", "PubRec", "PubRel", "PubComp",
	"Subscribe", "SubAck", "Unsubscribe", "UnsubAck", "PingReq", "PingResp", "Disconnect", "Auth"}

func methodsOf(types []string, m string) []string {
	var out []string
	for _, t := range types {
		out = append(out, "(*"+t+")."+m)
	}
	return out
}

var propSpecs = map[string]*PropSpec{}

func init() {
	decodeRoots := append([]string{"ReadPacket", "(*fixedHeader).ReadFrom", "(*fixedHeader).ReadRemaining"},
		methodsOf(append(append([]string{}, packetTypes...), "Undefined"), "UnmarshalBinary")...)
	renderRoots := append(methodsOf(packetTypes, "String"), "(*Undefined).String")
	for _, t := range packetTypes {
		if t != "PingReq" && t != "PingResp" {
			renderRoots = append(renderRoots, "(*"+t+").dump")
		}
	}
	renderRoots = append(renderRoots, "Dump", "(firstByte).String", "(connectFlags).String", "(connAckFlags).String",
		"(TopicFilter).String", "(ReasonCode).String", "(UserProp).String", "(*UserProperties).dump",
		"(*Malformed).Error", "(*Publish).WellFormed", "(*Subscribe).WellFormed", "(*TopicFilter).WellFormed",
		// representation invariant of Connect (will flag => will != nil): established by the
		// constructor; preservation by every exported method is added from the type-invariant directive
		"NewConnect")
	propSpecs["C19"] = &PropSpec{ID: "C19", Roots: renderRoots, InvariantMethods: true,
		Note: "all panic obligations of String, dump, Dump and of the table-driven renderings are discharged for every packet value satisfying the representation invariant (CONNECT: will flag set implies a will message is attached), which is proved to hold for constructor results and to be preserved by every mutator that touches the flag byte or the will, and by UnmarshalBinary also when it fails"}
	propSpecs["C05"] = &PropSpec{ID: "C05", Roots: decodeRoots,
		Note: "every loop on the decode path carries a variant that is proved non-negative and strictly decreasing (getAny, the filter loops, the reason-code loops, the variable-byte-integer loops), so iterations are bounded by the frame length; the number of list elements appended during one decode (ghost counter $elems: user properties, subscription identifiers, topic filters) and the reason-code list are proved <= len(data); every make() on the decode path is sized by bytes present in the frame (string length <= remaining bytes, reason codes = remaining bytes, frame buffer = declared remaining length <= 268435455)"}
	propSpecs["C04"] = &PropSpec{ID: "C04", Roots: decodeRoots,
		Note: "every automatically generated panic obligation (index, slice, nil dereference, type assertion, make, explicit panic, nil call) of ReadPacket and of the 16 UnmarshalBinary methods and of everything they call is discharged for arbitrary input bytes; plus the (packet, error) pair postcondition of ReadPacket/ReadRemaining"}
}

func init() {
	streamRootsList := []string{"ReadPacket", "(*fixedHeader).ReadFrom", "(*fixedHeader).ReadRemaining", "(*bits).ReadFrom", "(*vbint).ReadFrom", "io.ReadAtLeast"}
	propSpecs["C06"] = &PropSpec{ID: "C06", Roots: streamRootsList,
		Note: "with the ghost stream (S, N, T, $pos) and every Read returning an arbitrary legal chunk: if the fixed header at old($pos) is valid and the stream holds the whole frame, ReadPacket leaves $pos exactly 1 + size of the remaining-length field + remaining length further, whether it returns a packet or rejects the content; header bytes and body are read by io.ReadFull whose real stdlib body (io.ReadAtLeast) is verified against the same stream contract"}
	propSpecs["C07"] = &PropSpec{ID: "C07", Roots: streamRootsList,
		Note: "the postconditions of ReadPacket and of the five functions under it mention only the stream contents S, its end N, its terminal error T and the entry position, while the chunk size of every Read (including 0 and data-with-error) is unconstrained in the verification conditions; discharging them is therefore a proof for every fragmentation. That the decoded packet is a function of the delivered bytes follows from the buffer-equals-stream-segment postcondition of io.ReadAtLeast and the absence of any other input to UnmarshalBinary"}
	propSpecs["C08"] = &PropSpec{ID: "C08", Roots: streamRootsList,
		Note: "if the stream stops before the frame is complete ReadPacket returns (nil, err) with err != nil; errors.Is(err, T) holds for a non-EOF failure T and at a frame boundary (trusted model of fmt.Errorf %w and errors.Is over a ghost wraps relation); a packet is returned only if header and body were fully delivered"}
	propSpecs["C15"] = &PropSpec{ID: "C15", Roots: []string{"(vbint).fill", "(vbint).width", "(vbint).fillProp", "(*vbint).UnmarshalBinary", "(*vbint).ReadFrom", "lemmaVbRoundTrip"},
		Note: "encoder: width and every byte equal the closed-form specification (seven-bit groups, least significant first, continuation bit on all but the last) for all values; decoders: result equals the specification-level decoder specVbOK/specVbValue on every byte sequence (so the two decoders agree), sequences ending on a continuation byte or continuing past four bytes are rejected; round trip and minimality as a lemma over the spec functions for all v <= 268435455"}
}

func init() {
	roots := []string{"(*fixedHeader).ReadRemaining", "ReadPacket", "(*Publish).QoS", "(*Publish).Duplicate", "(*Publish).Retain"}
	roots = append(roots, methodsOf(packetTypes, "fill")...)
	roots = append(roots, methodsOf(packetTypes, "WriteTo")...)
	propSpecs["C16"] = &PropSpec{ID: "C16", Roots: roots,
		Note: "ReadRemaining: for all 256 values of the first byte (one bit-vector variable) the dynamic type of the returned packet is the one selected by the upper nibble (Undefined for 0) and, for types 1..15, its stored first byte equals the received one (UnmarshalBinary of every type is proved not to change it); Publish.QoS/Duplicate/Retain decode bits 2-1, 3 and 0; every packet's fill writes the stored first byte at offset 0 and WriteTo hands the writer a buffer whose first byte is the stored first byte (ghost $w0), so re-encoding reproduces it"}
}

func init() {
	propSpecs["C12"] = &PropSpec{ID: "C12", Prepare: prepareC12,
		Roots: []string{"(*UserProperties).AddUserProp", "(*Publish).AddSubscriptionID", "(*Subscribe).AddFilters", "(*Unsubscribe).AddFilter",
			"(*SubAck).AddReasonCode", "(*UnsubAck).AddReasonCode", "(*bits).toggle"},
		Note: "for every SetX/X pair of the public API (pairs found by name, not by field): after SetX(v) the accessor X() returns v (strings and binaries by content) and every other accessor of the type returns what it returned before the call; since no setter has a precondition on the packet state, last-write-wins for every sequence of calls follows by induction over the sequence. Derived flags (CONNECT user-name/password/will/clean-start bits, CONNACK session present, PUBLISH DUP/QoS/RETAIN) have explicit bit-vector postconditions; adders append in order"}
}

func init() {
	propSpecs["C17"] = &PropSpec{ID: "C17", Roots: []string{"(*Publish).WellFormed", "(*TopicFilter).WellFormed", "(*Subscribe).WellFormed", "(*Publish).String", "(*Subscribe).String"},
		Note: "WellFormed of Publish, TopicFilter and Subscribe returns an error exactly under the documented conditions (iff postconditions over all packet states; the filter loop with a quantified invariant); String() is produced by the 'malformed!' format exactly when WellFormed() != nil (ghost: which constant format string produced a Sprintf result)"}
}

func init() {
	propSpecs["C14"] = &PropSpec{ID: "C14", Prepare: prepareC14,
		Roots: []string{"(*bindata).UnmarshalBinary", "(*rawdata).UnmarshalBinary", "(*UserProp).UnmarshalBinary", "(*fixedHeader).ReadRemaining"},
		Note: "for each of the 16 UnmarshalBinary methods: (1) the heap frame obligations prove that nothing that existed before the call is written except the receiver's own fields and the spare capacity of its lists - in particular no byte of the input slice; (2) generated from the struct definitions, every slice, string or pointer field of the packet afterwards is nil, allocated by this call, or unchanged, so it cannot refer to the input; the wire-type decoders are proved to return freshly allocated values; ReadRemaining returns a freshly allocated packet. Hence overwriting the input or decoding another frame cannot change an accessor"}
}

func init() {
	readOnly := append(methodsOf(packetTypes, "WriteTo"), methodsOf(packetTypes, "String")...)
	readOnly = append(readOnly, methodsOf(packetTypes, "fill")...)
	for _, t := range packetTypes {
		if t != "PingReq" && t != "PingResp" {
			readOnly = append(readOnly, "(*"+t+").dump")
		}
	}
	readOnly = append(readOnly, "(*Undefined).String", "(*Undefined).WriteTo", "(*Publish).WellFormed", "(*Subscribe).WellFormed", "(*TopicFilter).WellFormed", "(*UserProperties).dump", "(*UserProperties).properties")
	note := "(a) for WriteTo, String, dump, WellFormed, fill and every accessor of every packet type the heap frame obligations prove that no memory that existed before the call is written (only fresh allocations, the caller's writer and ghost counters); (b) every range over a map on these paths is proved to iterate over at most one key, so the encoded bytes do not depend on iteration order; (c) syntactic scans over the SSA of the whole package: no function stores to a package-level variable and none uses goroutines, channels, select, time, random, os or sync. With the functional encoder contracts (C02/C10) equal packet states therefore give equal bytes in any process"
	propSpecs["C11"] = &PropSpec{ID: "C11", Roots: readOnly, Prepare: prepareC11, Extra: scanPackage, Note: note}
	propSpecs["C13"] = &PropSpec{ID: "C13", Roots: append(append([]string{}, readOnly...), "(*fixedHeader).ReadRemaining", "ReadPacket"), Prepare: prepareC11, Extra: scanPackage,
		Note: "a data race needs a write to memory shared between goroutines: " + note + "; ReadPacket writes only to objects it allocates (freshness postcondition) and to the caller's distinct stream. Under the Go memory model operations without writes to shared memory are race free and each goroutine's run equals a sequential run. No schedule is executed and the race detector is not used"}
}

func init() {
	propSpecs["C18"] = &PropSpec{ID: "C18", Roots: []string{"(*Connect).String", "(*Connect).dump", "(*Publish).dump", "(*UserProperties).dump"},
		Secrets:     []string{"p.username", "p.password"},
		SecretRecv:  "*mq.Connect",
		ForceInline: []string{"(*Connect).fill"},
		Note: "information flow as proof obligations: the bytes of the user name and of the password are marked secret in a ghost taint map that moves with bulk copies; String and dump of CONNECT (with the nested will and the user properties verified in place) are proved never to read a secret byte directly (so no value or branch can depend on one) and never to hand a secret byte to fmt or to the writer - lengths and emptiness remain observable. Two packets that differ only in equally long credential bytes therefore produce the same calls with the same arguments"}
}

func init() {
	roots := append(methodsOf(packetTypes, "WriteTo"), methodsOf(packetTypes, "fill")...)
	roots = append(roots, methodsOf(packetTypes, "String")...)
	roots = append(roots, "(*Undefined).WriteTo", "(*UserProperties).properties")
	propSpecs["C10"] = &PropSpec{ID: "C10", Roots: roots,
		Note: "for each of the 15 packet types: fill returns i + 1 + width(remaining length) + remaining length where the remaining length is the closed-form size of variable header and payload (width algebra; list sections via uninterpreted summation functions unfolded by the loop invariants), independent of the buffer argument; WriteTo performs exactly one Write of a buffer of exactly that length and returns that call's (n, err); String prints the same size term; Undefined.WriteTo performs no Write and returns an error"}
}

func init() {
	roots := append([]string{"ReadPacket", "(*fixedHeader).ReadRemaining", "(*buffer).get", "(*wuint16).UnmarshalBinary", "(*wuint32).UnmarshalBinary", "(*bindata).UnmarshalBinary",
		"(*vbint).UnmarshalBinary", "(*vbint).ReadFrom", "(*wbool).UnmarshalBinary", "(*UserProp).UnmarshalBinary"},
		methodsOf(append(append([]string{}, packetTypes...), "Undefined"), "UnmarshalBinary")...)
	propSpecs["C09"] = &PropSpec{ID: "C09", Roots: roots,
		Note: "wire level: a two/four byte integer, a string or binary (prefix or body), a string pair and a variable byte integer that does not fit in the bytes given is refused; a variable byte integer continuing past four bytes is refused; a boolean byte other than 0/1 is refused. Field level: buffer.get, the one primitive through which every field of every packet is read, is proved to record an error exactly when the value of the requested wire type does not fit between the cursor and the end of the frame (or is a bad boolean / incomplete variable byte integer), and to leave the cursor where it was; an earlier error is final. Framing level: in every property loop an identifier that is neither in that call site's table nor User Property / Subscription Identifier records an error (checked at every back edge against the evaluated table); a ghost counter of recorded errors proves for all 16 UnmarshalBinary methods that once any field decoder refused or an unknown identifier was seen the call returns a non-nil error, and ReadRemaining/ReadPacket then return (nil, err). NOT proved: that for a cut inside a field of an otherwise valid frame the decoder's cursor is at that field (this needs the reference reader; see DESIGN 9a)"}
}

func init() {
	var ctors []string
	for _, t := range packetTypes {
		ctors = append(ctors, "New"+t)
	}
	roots := append(ctors, methodsOf(packetTypes, "fill")...)
	roots = append(roots, "(vbint).fill", "(bits).fill", "(wuint16).fill", "(wuint32).fill", "(bindata).fill", "(rawdata).fill", "(wbool).fill", "(Ident).fill",
		"(bits).fillProp", "(wbool).fillProp", "(wuint16).fillProp", "(wuint32).fillProp", "(vbint).fillProp", "(bindata).fillProp", "(UserProp).fillProp", "(UserProp).fill", "(TopicFilter).fill", "lemmaVbRoundTrip")
	propSpecs["C02"] = &PropSpec{ID: "C02", Roots: roots, InvariantMethods: true, Extra: scanPropertyTables,
		Note: "structural validity, PARTIAL: (1) type and reserved flag bits - the first byte is a type invariant established by each constructor and preserved by every exported method (PUBLISH: type nibble; DUP/QoS/RETAIN free), and fill writes it at offset 0; (2) the remaining-length field is the minimal variable byte integer of the closed-form size of everything that follows (MQTT field tables; for PUBACK/PUBREC/PUBREL/PUBCOMP the reason code is present whenever properties follow); (3) property table conformance scan over the SSA of all encoders and property maps against MQTT v5.0 Table 2-4: identifier numbers by name, identifiers allowed for the packet, specified wire type, at most once; (4) byte-level contracts of every wire-type encoder (two/four byte big endian, length-prefixed strings, variable byte integers, identifier byte before each property value). NOT proved: the order of fields inside variable header and payload and that a specification-level reader reads back exactly the values set (needs the reference reader R, DESIGN 9a)"}
}

func init() {
	roots := []string{"(*buffer).get", "(*bits).UnmarshalBinary", "(*Ident).UnmarshalBinary", "(*wbool).UnmarshalBinary", "(*wuint16).UnmarshalBinary", "(*wuint32).UnmarshalBinary",
		"(*vbint).UnmarshalBinary", "(*bindata).UnmarshalBinary", "(*rawdata).UnmarshalBinary", "(*UserProp).UnmarshalBinary"}
	roots = append(roots, methodsOf(packetTypes, "UnmarshalBinary")...)
	propSpecs["C03"] = &PropSpec{ID: "C03", Roots: roots, ThoroughRoots: []string{"decConnect"}, ForceInline: []string{"(*Connect).UnmarshalBinary"},
		Note: "PARTIAL - the decoder against a specification-level reader R, one step at a time, for all byte sequences: (1) R's primitive read: buffer.get is proved, for each of the nine wire types, to accept exactly when the value fits at the cursor (and a boolean byte is 0/1, a variable byte integer is complete), to deliver the specification value (big endian integers, string/binary contents byte for byte, specVbValue) and to advance the cursor by its width; the wire-type decoders carry byte-level contracts; (2) property sections: for every identifier MQTT v5.0 allows in the packet (table typed from the specification in gen_c03.py), one iteration of the property loop that starts at that identifier is proved to leave the specified value in the accessor the API names for it, to advance the cursor by 1 + width, to accept it (fixed-width types; for strings: table membership + (1)), and the identifier read is the byte at the cursor; user properties and subscription identifiers advance the cursor by their encoded size; (3) fixed-position fields and legal short forms: packet identifier / reason code / flags at their offsets, PUBACK-family frames of remaining length 2 and 3 and DISCONNECT/AUTH of length 1 are accepted, the property section starts where the specification says ($pstart), PUBLISH payload = rest of the frame after the properties; (4) lists, one step each: SUBACK/UNSUBACK reason codes (length and contents), one topic filter with its options byte per iteration of the SUBSCRIBE/UNSUBSCRIBE payload loops, one user property (key and value contents) appended per user-property entry, the subscription identifier of SUBSCRIBE; (5) the will message of a decoded CONNECT takes QoS and retain from the connect flags. NOT proved: the induction over the iterations (that each loop as a whole is R's fold), CONNECT's fixed fields, will properties and payload strings, PUBLISH topic name and packet identifier after the loop, the values of PUBLISH subscription identifiers, and the acceptance of whole frames end to end. Known finding D8: DISCONNECT refuses the three properties the specification allows"}
}

func init() {
	roots := []string{"rtBits", "rtBool", "rtU16", "rtU32", "rtVbint", "rtBindata", "rtRawdata", "rtUserProp",
		// the contracts the round trips are composed from, proved in the same run
		"(vbint).fill", "(bits).fill", "(wuint16).fill", "(wuint32).fill", "(bindata).fill", "(rawdata).fill", "(wbool).fill", "(UserProp).fill", "lemmaVbRoundTrip",
		"(*buffer).get", "(*bits).UnmarshalBinary", "(*wbool).UnmarshalBinary", "(*wuint16).UnmarshalBinary", "(*wuint32).UnmarshalBinary",
		"(*vbint).UnmarshalBinary", "(*bindata).UnmarshalBinary", "(*rawdata).UnmarshalBinary", "(*UserProp).UnmarshalBinary"}
	propAlso["C01"] = []string{"C02", "C03", "C15"}
	roots = append(roots, "rtPubAck", "rtPubRec", "rtPubRel", "rtPubComp", "rtConnAck", "rtDisconnect", "rtAuth", "rtPingReq", "rtPingResp")
	propSpecs["C01"] = &PropSpec{ID: "C01", Roots: roots,
		ForceInline: methodsOf(packetTypes, "UnmarshalBinary"),
		Note: "PARTIAL - round trips of the real code: ghost harnesses (rt* in /repo/spec_verif.go, build tag verif) call the library's encoder and then the library's decoder on the bytes just written; the encoder side is taken by contract (every contract used is re-proved in this run), the decoder side is executed symbolically in place. (1) wire types: one byte, boolean, two and four byte integers, variable byte integers <= 268435455, strings/binary data of every length <= 65535, raw payload, string pairs - fill at offset i followed by buffer.get at cursor i gives no error, the same value (strings byte for byte) and the cursor exactly behind the bytes written; (2) fixed forms of PUBACK, PUBREC, PUBREL, PUBCOMP, CONNACK, DISCONNECT, AUTH (empty property section, every value of the other fields) and PINGREQ, PINGRESP: the frame produced by fill, cut behind its fixed header as ReadRemaining does, is accepted by UnmarshalBinary into a zero packet carrying the frame's first byte, and packet identifier, reason code, acknowledge flags and first byte come back. NOT covered by a round-trip obligation: packets with properties, list packets, PUBLISH, CONNECT, WriteTo/ReadPacket themselves (C10, C06/C07, C16), re-encoding"}
}
