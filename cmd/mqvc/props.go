package main

// Properties: which functions are verified as roots for each property.

var packetTypes = []string{"Connect", "ConnAck", "Publish", "PubAck", "PubRec", "PubRel", "PubComp",
	"Subscribe", "SubAck", "Unsubscribe", "UnsubAck", "PingReq", "PingResp", "Disconnect", "Auth"}

func methodsOf(types []string, m string) []string {
	var out []string
	for _, t := range types {
		out = append(out, "(*"+t+")."+m)
	}
	return out
}

var propSpecs = map[string]*PropSpec{}

func init() {
	decodeRoots := append([]string{"ReadPacket", "(*fixedHeader).ReadFrom", "(*fixedHeader).ReadRemaining"},
		methodsOf(append(append([]string{}, packetTypes...), "Undefined"), "UnmarshalBinary")...)
	propSpecs["C04"] = &PropSpec{ID: "C04", Roots: decodeRoots,
		Note: "every automatically generated panic obligation (index, slice, nil dereference, type assertion, make, explicit panic, nil call) of ReadPacket and of the 16 UnmarshalBinary methods and of everything they call is discharged for arbitrary input bytes; plus the (packet, error) pair postcondition of ReadPacket/ReadRemaining"}
}
