package main

// Replay: turn a failed obligation into a concrete input for the real code
// (go test -overlay, nothing is written to the repository).

import (
	"sort"
	"bytes"
	"context"
	"encoding/json"
	"fmt"
	"go/types"
	"os"
	"os/exec"
	"path/filepath"
	"regexp"
	"strconv"
	"strings"
	"time"
)

// getValues asks z3-new for the values of the given terms in a model of the
// failed obligation (with small-model side constraints first).
var relaxedModels = true

func getValues(vc *VC, ob *Obligation, terms []string, extra []string) (map[string]string, string) {
	q := vc.standalone(ob, relaxedModels, extra) // candidate model, confirmed by replay
	// name every term so that the answer can be parsed reliably
	q = strings.TrimSuffix(q, "(check-sat)\n")
	var names []string
	for i, t := range terms {
		n := fmt.Sprintf("rv!%d", i)
		names = append(names, n)
		srt := "Int"
		if strings.HasPrefix(t, "(select H_uint8") || strings.HasPrefix(t, "(select g_S") {
			srt = "(_ BitVec 8)"
		} else if s, ok := vc.termSorts[t]; ok {
			srt = s
		}
		q += fmt.Sprintf("(declare-const %s %s)\n(assert (= %s %s))\n", n, srt, n, t)
	}
	q += "(check-sat)\n(get-value (" + strings.Join(names, " ") + "))\n"
	file := tmpFile("model")
	os.WriteFile(file, []byte(q), 0o644)
	if os.Getenv("MQVC_DEBUG") == "" {
		defer os.Remove(file)
	}
	out, _ := runSolver(solvers[0], file, 20000, 30*time.Second)
	lines := strings.SplitN(out, "\n", 2)
	if len(lines) < 2 || strings.TrimSpace(lines[0]) != "sat" {
		if os.Getenv("MQVC_DEBUG") != "" {
			fmt.Fprintf(os.Stderr, "getValues: %s\n", out[:min(len(out), 400)])
		}
		return nil, out
	}
	vals := map[string]string{}
	re := regexp.MustCompile(`\(rv!(\d+)\s+([^()\s]+|\(- \d+\))\)`)
	for _, m := range re.FindAllStringSubmatch(lines[1], -1) {
		i, _ := strconv.Atoi(m[1])
		if i < len(terms) {
			vals[terms[i]] = m[2]
		}
	}
	return vals, out
}

func smtInt(v string) (int64, bool) {
	v = strings.TrimSpace(v)
	if strings.HasPrefix(v, "(- ") {
		n, err := strconv.ParseInt(strings.TrimSuffix(v[3:], ")"), 10, 64)
		return -n, err == nil
	}
	if strings.HasPrefix(v, "#x") {
		n, err := strconv.ParseUint(v[2:], 16, 64)
		return int64(n), err == nil
	}
	if strings.HasPrefix(v, "#b") {
		n, err := strconv.ParseUint(v[2:], 2, 64)
		return int64(n), err == nil
	}
	n, err := strconv.ParseInt(v, 10, 64)
	return n, err == nil
}

var panicKinds = map[string]bool{"index": true, "slice": true, "nil-deref": true, "type-assert": true, "panic": true,
	"make-len": true, "div-zero": true, "nil-call": true, "nil-map": true}

// writeReplay writes the replay file and, where the root function's inputs
// can be reconstructed from the model, runs the real code. It returns true
// if the real code exhibits the failure.
func writeReplay(w *World, r *Result, path, prop string) bool {
	var b bytes.Buffer
	fmt.Fprintf(&b, "property: %s\nobligation: %s\nkind: %s\nroot function: %s\nsite function: %s\n", prop, r.Ob.Name, r.Ob.Kind, shortFuncName(r.VC.root.String()), r.Ob.Fn)
	if r.Ob.Pos.IsValid() {
		fmt.Fprintf(&b, "source: %s\n", r.Ob.Pos)
	}
	fmt.Fprintf(&b, "claim: %s\nsolver: %s\nstatus: %s (%.2fs)\n", r.Ob.Desc, r.Solver, r.Status, r.Secs)
	if r.Output != "" {
		fmt.Fprintf(&b, "solver output:\n%s\n", r.Output)
	}
	confirmed := false
	if r.Status == "sat" || r.Status == "unknown" {
		in := extractInput(w, r.VC, r.Ob, and(r.Ob.Reach, not(r.Ob.Goal)), r.Ob.Kind)
		seed := in
		if in != nil {
			// try the model of the modular VC first; states behind a loop cut
			// are not function inputs, so fall back to bounded unrolling
			if src := in.testSource(); src != "" {
				if out, ok := runOverlayTest(src, in.watchdog); !ok {
					if os.Getenv("MQVC_DEBUG") != "" {
						fmt.Fprintf(os.Stderr, "first replay attempt failed:\n%s\n%s\n", src, out)
					}
					in = nil
				}
			}
		}
		if sr := rejectionReplay(prop, r); sr != "" {
			fmt.Fprintf(&b, "\nA frame that MQTT obliges a decoder to refuse is accepted by the real ReadPacket (rejection harness; replay aid, not part of the proof):\n%s\nreplay: CONFIRMED on the real code\n", sr)
			os.WriteFile(path, b.Bytes(), 0o644)
			return true
		}
		if sr := conformanceReplay(prop, r); sr != "" {
			fmt.Fprintf(&b, "\nA structurally valid frame (built by the specification-level encoder of gen_c03.py) is refused or decoded to a wrong accessor value by the real ReadPacket (replay aid, not part of the proof):\n%s\nreplay: CONFIRMED on the real code\n", sr)
			os.WriteFile(path, b.Bytes(), 0o644)
			return true
		}
		if sr := credentialsReplay(r); sr != "" {
			fmt.Fprintf(&b, "\nThe obligation is about information flow from the credentials. Two CONNECT packets differing only in equally long credentials render differently on the real code (replay aid, not part of the proof):\n%s\nreplay: CONFIRMED on the real code\n", sr)
			os.WriteFile(path, b.Bytes(), 0o644)
			return true
		}
		if sr := determinismReplay(r); sr != "" {
			fmt.Fprintf(&b, "\nThe obligation is about iteration order. Encoding the same packet repeatedly on the real code gives different bytes (replay aid, not part of the proof):\n%s\nreplay: CONFIRMED on the real code\n", sr)
			os.WriteFile(path, b.Bytes(), 0o644)
			return true
		}
		if sr := streamReplay(r); sr != "" {
			fmt.Fprintf(&b, "\nThe failed obligation speaks about the ghost stream (all delivery schedules). A concrete frame and schedule contradicting it on the real code was found by the stream harness (replay aid, not part of the proof):\n%s\nreplay: CONFIRMED on the real code\n", sr)
			os.WriteFile(path, b.Bytes(), 0o644)
			return true
		}
		if in == nil {
			if sr := searchReplay(w, r, seed); sr != "" {
				fmt.Fprintf(&b, "\nThe solver's model is a state behind a loop cut or a callee contract, not a function input; a failing input for this site was found by a bounded search over short inputs seeded with the model (replay aid, not part of the proof):\n%s\nreplay: CONFIRMED on the real code\n", sr)
				os.WriteFile(path, b.Bytes(), 0o644)
				return true
			}
		}
		if in != nil {
			fmt.Fprintf(&b, "\nmodel input: %s\n", in.describe())
			src := in.testSource()
			if src != "" {
				out, ok := runOverlayTest(src, in.watchdog)
				fmt.Fprintf(&b, "\n--- replay test (go test -overlay, in package mq) ---\n%s\n--- output ---\n%s\n", src, out)
				confirmed = ok
				if ok {
					fmt.Fprintf(&b, "replay: CONFIRMED on the real code\n")
				} else {
					fmt.Fprintf(&b, "replay: the real code did not exhibit the failure for this input\n")
				}
			}
		} else {
			fmt.Fprintf(&b, "\nno concrete input could be reconstructed from the solver's answer\n")
		}
	}
	if !confirmed {
		fmt.Fprintf(&b, "\nno-failing-input-found: the obligation is no longer discharged; see solver status above\n")
	}
	os.WriteFile(path, b.Bytes(), 0o644)
	return confirmed
}

type replayInput struct {
	recvType string
	method   string
	data     []byte
	hasData  bool
	fields   map[string]string // field name -> Go literal
	watchdog bool
	kind     string
	stream   *streamScript
	note     string
	argTerms []struct{ term, typ string }
	paramNames []string
	argDecls []string
	callArgs string
	dataName string
	recvName string
	recvInit string
	nres     int
	post     string
	postSrc  string
}

type streamScript struct {
	bytes  []byte
	chunks []int
	eof    bool
}

func (in *replayInput) describe() string {
	s := fmt.Sprintf("%s.%s", in.recvType, in.method)
	if in.hasData {
		d := in.data
		if len(d) > 48 {
			d = d[:48]
		}
		s += fmt.Sprintf(" len(data)=%d data[:%d]=% x", len(in.data), len(d), d)
	}
	if len(in.fields) > 0 {
		js, _ := json.Marshal(in.fields)
		s += " fields=" + string(js)
	}
	if in.note != "" {
		s += " (" + in.note + ")"
	}
	return s
}

var reRecv = regexp.MustCompile(`^\(\*(\w+)\)\.(\w+)$`)

func extractInput(w *World, vc *VC, ob *Obligation, cond string, kind string) *replayInput {
	root := shortFuncName(vc.root.String())
	m := reRecv.FindStringSubmatch(root)
	if m == nil {
		return nil
	}
	in := &replayInput{recvType: m[1], method: m[2], fields: map[string]string{}, kind: kind}
	fn := vc.root
	in.recvName = fn.Params[0].Name()
	for _, p := range fn.Params[1:] {
		in.paramNames = append(in.paramNames, p.Name())
	}
	in.nres = fn.Signature.Results().Len()
	if kind == "ensures" && ob.Fn == root {
		if n, err := parseSpec(ob.Desc); err == nil {
			c := &goCtx{recv: in.recvName}
			if ct := w.contracts[root]; ct != nil {
				c.lets = ct.Lets
			}
			for _, p := range fn.Params[1:] {
				if isSliceT(p.Type()) && typeStr(elemOf(p.Type())) == "uint8" {
					c.dataParam = p.Name()
				}
			}
			s := c.expr(n)
			if c.bad == "" {
				in.post, in.postSrc = s, ob.Desc
			}
		}
	}
	var terms []string
	var dataBase, dataLen string
	for _, p := range fn.Params[1:] {
		if isSliceT(p.Type()) && typeStr(elemOf(p.Type())) == "uint8" {
			// parameter leaves are the first three fresh names f1_p_<name>!k
			dataBase, dataLen = findDecl(vc, "f1_p_"+p.Name(), 0), findDecl(vc, "f1_p_"+p.Name(), 1)
			in.dataName = p.Name()
		}
	}
	u8 := "H_uint8_0"
	const maxBytes = 48
	// arguments other than the first byte slice: scalars and lengths from the model
	var argTerms []struct{ term, typ string }
	for _, p := range fn.Params[1:] {
		switch {
		case p.Name() == in.dataName && in.dataName != "":
			argTerms = append(argTerms, struct{ term, typ string }{"", "@data"})
		case isIfaceT(p.Type()):
			argTerms = append(argTerms, struct{ term, typ string }{"", "io.Discard"})
		case isStringT(p.Type()) || isSliceT(p.Type()) && typeStr(elemOf(p.Type())) == "uint8":
			argTerms = append(argTerms, struct{ term, typ string }{findDecl(vc, "f1_p_"+p.Name(), 1), "bytes:" + types.TypeString(p.Type(), func(*types.Package) string { return "" })})
		default:
			l, ok := numLeaf(p.Type())
			if !ok && len(flatten(p.Type())) == 1 && flatten(p.Type())[0].Kind == lkBool {
				l, ok = flatten(p.Type())[0], true
			}
			if !ok {
				return nil
			}
			t := findDecl(vc, "f1_p_"+p.Name(), 0)
			vc.termSorts[t] = l.Sort
			argTerms = append(argTerms, struct{ term, typ string }{t, "num:" + types.TypeString(p.Type(), func(*types.Package) string { return "" })})
		}
	}
	in.argTerms = argTerms
	if dataLen == "" {
		dataLen = "0"
		terms = append(terms, "0")
		for k := 0; k < maxBytes; k++ {
			terms = append(terms, "0")
		}
	} else {
		in.hasData = true
		terms = append(terms, dataLen)
		for k := 0; k < maxBytes; k++ {
			terms = append(terms, fmt.Sprintf("(select %s (+ %s %d))", u8, dataBase, k))
		}
	}
	// scalar fields of the receiver
	recvBase := findDecl(vc, "f1_p_"+fn.Params[0].Name(), 0)
	var fieldTerms []struct{ name, term string; l Leaf }
	var sliceTerms []struct{ name, term, typ string }
	var ptrTerms []struct{ name, term, typ string }
	if st, ok := elemOf(fn.Params[0].Type()).Underlying().(*types.Struct); ok {
		for i := 0; i < st.NumFields(); i++ {
			ft := st.Field(i).Type()
			ls := flatten(ft)
			if isSliceT(ft) {
				arr := ls[1].Key + "_0"
				if !vc.declared[arr] {
					continue
				}
				t := fmt.Sprintf("(select %s (+ %s %d))", arr, recvBase, fieldSlotOffset(st, i))
				sliceTerms = append(sliceTerms, struct{ name, term, typ string }{st.Field(i).Name(), t, types.TypeString(ft, func(*types.Package) string { return "" })})
				terms = append(terms, t)
				continue
			}
			if pt, ok := ft.Underlying().(*types.Pointer); ok {
				arr := ls[0].Key + "_0"
				if !vc.declared[arr] {
					continue
				}
				t := fmt.Sprintf("(select %s (+ %s %d))", arr, recvBase, fieldSlotOffset(st, i))
				ptrTerms = append(ptrTerms, struct{ name, term, typ string }{st.Field(i).Name(), t, types.TypeString(pt.Elem(), func(*types.Package) string { return "" })})
				terms = append(terms, t)
				continue
			}
			if len(ls) != 1 || !(ls[0].Kind == lkBV || ls[0].Kind == lkBool || ls[0].Kind == lkInt) {
				continue
			}
			arr := ls[0].Key + "_0"
			if !vc.declared[arr] {
				continue
			}
			t := fmt.Sprintf("(select %s (+ %s %d))", arr, recvBase, fieldSlotOffset(st, i))
			fieldTerms = append(fieldTerms, struct{ name, term string; l Leaf }{st.Field(i).Name(), t, ls[0]})
			terms = append(terms, t)
			vc.termSorts[t] = ls[0].Sort
		}
	}
	for _, at := range in.argTerms {
		if at.term != "" {
			terms = append(terms, at.term)
		}
	}
	recvInitTerm := ""
	if l, ok := numLeaf(elemOf(fn.Params[0].Type())); ok {
		arr := l.Key + "_0"
		if vc.declared[arr] {
			recvInitTerm = fmt.Sprintf("(select %s %s)", arr, recvBase)
			terms = append(terms, recvInitTerm)
			vc.termSorts[recvInitTerm] = l.Sort
		}
	}
	if !vc.declared[u8] {
		vc.decls = append(vc.decls, "(declare-const H_uint8_0 (Array Int (_ BitVec 8)))")
		vc.declared[u8] = true
	}
	var vals map[string]string
	for _, bound := range []int{8, 24, maxBytes, -1} {
		var extra []string
		if bound >= 0 {
			extra = []string{fmt.Sprintf("(assert (<= %s %d))", dataLen, bound)}
		}
		vals, _ = getValues(vc, ob, terms, extra)
		if vals != nil {
			break
		}
	}
	if vals == nil {
		return nil
	}
	n, ok := smtInt(vals[dataLen])
	if dataLen == "0" {
		n, ok = 0, true
	}
	if !ok || n < 0 || n > 1<<20 {
		return nil
	}
	in.data = make([]byte, n)
	for k := 0; k < int(n) && k < maxBytes; k++ {
		if v, ok := smtInt(vals[terms[1+k]]); ok {
			in.data[k] = byte(v)
		}
	}
	for _, f := range fieldTerms {
		v, ok := vals[f.term]
		if !ok {
			continue
		}
		switch f.l.Kind {
		case lkBool:
			in.fields[f.name] = v
		default:
			if n, ok := smtInt(v); ok && n != 0 {
				in.fields[f.name] = strconv.FormatInt(n, 10)
			}
		}
	}
	if len(in.argTerms) > 0 {
		var decls, names []string
		for i, at := range in.argTerms {
			pn := in.paramNames[i]
			switch {
			case at.typ == "@data":
				names = append(names, in.dataName)
				continue
			case at.term == "":
				names = append(names, at.typ)
				continue
			case strings.HasPrefix(at.typ, "bytes:"):
				n, _ := smtInt(vals[at.term])
				if n < 0 || n > 1<<16 {
					n = 0
				}
				decls = append(decls, fmt.Sprintf("%s := %s(make([]byte, %d))", pn, at.typ[6:], n))
			default:
				v := vals[at.term]
				lit := v
				if v == "true" || v == "false" {
					lit = v
				} else if n, ok := smtInt(v); ok {
					lit = strconv.FormatInt(n, 10)
				} else {
					lit = "0"
				}
				if strings.HasSuffix(at.typ, "bool") {
					decls = append(decls, fmt.Sprintf("%s := %s", pn, lit))
				} else {
					decls = append(decls, fmt.Sprintf("%s := %s(%s)", pn, at.typ[4:], lit))
				}
			}
			names = append(names, pn)
		}
		in.argDecls = decls
		in.callArgs = strings.Join(names, ", ")
	}
	if recvInitTerm != "" {
		if n, ok := smtInt(vals[recvInitTerm]); ok {
			in.recvInit = strconv.FormatInt(n, 10)
		}
	}
	for _, f := range sliceTerms {
		if n, ok := smtInt(vals[f.term]); ok && n > 0 && n < 1<<20 {
			in.fields[f.name] = fmt.Sprintf("make(%s, %d)", f.typ, n)
			if strings.HasSuffix(f.typ, "UserProperties") {
				// element contents are not part of the model: use small non-empty pairs
				if n > 2 {
					n = 2
				}
				in.fields[f.name] = "UserProperties{" + strings.Repeat(`{"k", "v"}, `, int(n)) + "}"
			}
		}
	}
	for _, f := range ptrTerms {
		if n, ok := smtInt(vals[f.term]); ok && n > 0 {
			in.fields[f.name] = fmt.Sprintf("new(%s)", f.typ)
		}
	}
	if kind == "decreases" {
		in.watchdog = true
	}
	return in
}

// findDecl finds the k-th declared constant whose name starts with prefix!.
func findDecl(vc *VC, prefix string, k int) string {
	n := 0
	for _, it := range vc.items {
		if it.Ob != nil || !strings.HasPrefix(it.Cmd, "(declare-const "+prefix+"!") {
			continue
		}
		if n == k {
			return strings.Fields(it.Cmd)[1]
		}
		n++
	}
	return ""
}

func (in *replayInput) testSource() string {
	var b strings.Builder
	b.WriteString("package mq\n\nimport (\n\t\"fmt\"\n\t\"io\"\n\t\"reflect\"\n\t\"strings\"\n\t\"testing\"\n\t\"unsafe\"\n)\n\nvar _ = io.Discard\nvar _ = reflect.DeepEqual\nvar _ = strings.Contains\nvar _ = unsafe.Pointer(nil)\n")
	b.WriteString(replayHelpers)
	b.WriteString("\nfunc TestVerifReplay(t *testing.T) {\n")
	dn := in.dataName
	if dn == "" {
		dn = "data"
	}
	rn := in.recvName
	if rn == "" {
		rn = "p"
	}
	fmt.Fprintf(&b, "\t%s := make([]byte, %d)\n\t_ = %s\n\tcopy(%s, []byte{", dn, len(in.data), dn, dn)
	for i, c := range in.data {
		if i >= 48 {
			break
		}
		if i > 0 {
			b.WriteString(", ")
		}
		fmt.Fprintf(&b, "0x%02x", c)
	}
	b.WriteString("})\n")
	fmt.Fprintf(&b, "\tvar recv_ %s\n", in.recvType)
	if in.recvInit != "" {
		fmt.Fprintf(&b, "\trecv_ = %s\n", in.recvInit)
	}
	fmt.Fprintf(&b, "\t%s := &recv_\n", rn)
	var names []string
	for name := range in.fields {
		names = append(names, name)
	}
	sort.Strings(names)
	for _, name := range names {
		fmt.Fprintf(&b, "\t%s.%s = %s\n", rn, name, in.fields[name])
	}
	fmt.Fprintf(&b, "\told_%s := new(%s)\n\t*old_%s = *%s\n\t_ = old_%s\n", rn, in.recvType, rn, rn, rn)
	fmt.Fprintf(&b, "\told_%s := append([]byte(nil), %s...)\n\t_ = old_%s\n", dn, dn, dn)
	for _, d := range in.argDecls {
		b.WriteString("\t" + d + "\n")
	}
	b.WriteString("\tdefer func() {\n\t\tif e := recover(); e != nil {\n\t\t\tfmt.Println(\"REPLAY-PANIC:\", e)\n\t\t}\n\t}()\n")
	args := in.callArgs
	switch in.nres {
	case 0:
		fmt.Fprintf(&b, "\t%s.%s(%s)\n", rn, in.method, args)
	case 1:
		fmt.Fprintf(&b, "\tresult := %s.%s(%s)\n\tresult0 := result\n\t_, _ = result, result0\n", rn, in.method, args)
	default:
		fmt.Fprintf(&b, "\tresult0, result1 := %s.%s(%s)\n\t_, _ = result0, result1\n", rn, in.method, args)
	}
	if in.post != "" {
		fmt.Fprintf(&b, "\tif !(%s) {\n\t\tfmt.Printf(\"REPLAY-VIOLATION: postcondition does not hold: %%s\\n\", %q)\n\t}\n", in.post, in.postSrc)
	}
	b.WriteString("\tfmt.Println(\"REPLAY-RETURNED\")\n}\n")
	return b.String()
}

// runOverlayTest runs the generated test inside the package through an
// overlay. It reports whether the failure (panic, or hang under the
// watchdog) was observed.
func runOverlayTest(src string, watchdog bool) (string, bool) {
	dir, err := os.MkdirTemp("", "mqvc-replay")
	if err != nil {
		return err.Error(), false
	}
	defer os.RemoveAll(dir)
	testFile := filepath.Join(dir, "verif_replay_test.go")
	os.WriteFile(testFile, []byte(src), 0o644)
	ov := map[string]map[string]string{"Replace": {filepath.Join(repoDir, "verif_replay_test.go"): testFile}}
	js, _ := json.Marshal(ov)
	ovFile := filepath.Join(dir, "overlay.json")
	os.WriteFile(ovFile, js, 0o644)
	ctx, cancel := context.WithTimeout(context.Background(), 120*time.Second)
	defer cancel()
	timeout := "60s"
	if watchdog {
		timeout = "5s"
	}
	cmd := exec.CommandContext(ctx, "bash", "-c", fmt.Sprintf("ulimit -v 4000000; cd %s && go test -overlay %s -tags=verif -vet=off -count=1 -v -timeout %s -run '^TestVerifReplay$' . 2>&1 | head -c 6000", repoDir, ovFile, timeout))
	cmd.Env = append(os.Environ(), "GOFLAGS=-mod=mod", "GOPROXY=off", "GOSUMDB=off", "GOTOOLCHAIN=local", "GOCACHE="+goCache())
	out, _ := cmd.CombinedOutput()
	s := string(out)
	if strings.Contains(s, "REPLAY-PANIC:") || strings.Contains(s, "REPLAY-VIOLATION") {
		return s, true
	}
	if watchdog && (strings.Contains(s, "test timed out") || strings.Contains(s, "panic: test timed out") || strings.Contains(s, "out of memory") || strings.Contains(s, "cannot allocate")) {
		return s, true
	}
	return s, false
}

func goCache() string {
	if c := os.Getenv("GOCACHE"); c != "" {
		return c
	}
	out, err := exec.Command("go", "env", "GOCACHE").Output()
	if err == nil {
		return strings.TrimSpace(string(out))
	}
	return "/root/.cache/go-build"
}

// searchReplay looks for a concrete input that makes the real code fail at
// the obligation's site: a panic whose stack contains the site's source
// position, or a hang for a failed termination obligation. Candidates are
// the solver's model, its mutations and all short byte strings over a small
// alphabet, against three receiver states (zero, from the model, all byte
// fields preset).
func searchReplay(w *World, r *Result, seed *replayInput) string {
	root := shortFuncName(r.VC.root.String())
	m := reRecv.FindStringSubmatch(root)
	if m == nil || m[2] != "UnmarshalBinary" {
		return ""
	}
	hang := r.Ob.Kind == "decreases"
	post, postSrc := "", ""
	rn, dn := r.VC.root.Params[0].Name(), r.VC.root.Params[1].Name()
	if r.Ob.Kind == "ensures" && r.Ob.Fn == root {
		if n, err := parseSpec(r.Ob.Desc); err == nil {
			c := &goCtx{recv: rn, dataParam: dn}
			if ct := w.contracts[root]; ct != nil {
				c.lets = ct.Lets
			}
			s := c.expr(n)
			if c.bad == "" {
				post, postSrc = s, r.Ob.Desc
			}
		}
		if post == "" {
			return ""
		}
	} else if !hang && !panicKinds[r.Ob.Kind] {
		return ""
	}
	site := ""
	if r.Ob.Pos.IsValid() {
		site = fmt.Sprintf("%s:%d", filepath.Base(r.Ob.Pos.Filename), r.Ob.Pos.Line)
	}
	if !hang && site == "" && post == "" {
		return ""
	}
	typeAlias := ""
	var b strings.Builder
	b.WriteString("package mq\n\nimport (\n\t\"fmt\"\n\t\"os\"\n\t\"reflect\"\n\t\"runtime/debug\"\n\t\"strings\"\n\t\"testing\"\n\t\"time\"\n\t\"unsafe\"\n)\n\nvar _ = reflect.DeepEqual\nvar _ = unsafe.Pointer(nil)\n")
	b.WriteString(replayHelpers)
	if post != "" {
		fmt.Fprintf(&b, "\nfunc verifPost(%s, old_%s *%s, %s, old_%s []byte, result error) bool {\n\tresult0 := result\n\t_ = result0\n\treturn %s\n}\n", rn, rn, m[1], dn, dn, post)
	} else {
		fmt.Fprintf(&b, "\nfunc verifPost(%s, old_%s *%s, %s, old_%s []byte, result error) bool { return true }\n", rn, rn, m[1], dn, dn)
	}
	fmt.Fprintf(&b, "\nconst verifPostSrc = %q\n", postSrc)
	fmt.Fprintf(&b, "func TestVerifReplay(t *testing.T) {\n\tsite := %q\n\thang := %v\n", site, hang)
	fmt.Fprintf(&b, "\tmk := []func() *%s{\n\t\tfunc() *%s { return new(%s) },\n", m[1], m[1], m[1])
	typeAlias = fmt.Sprintf("type verifRecv = %s\n", m[1])
	// model-seeded receiver
	fmt.Fprintf(&b, "\t\tfunc() *%s {\n\t\t\tp := new(%s)\n", m[1], m[1])
	if seed != nil {
		var names []string
		for n := range seed.fields {
			names = append(names, n)
		}
		sort.Strings(names)
		for _, n := range names {
			fmt.Fprintf(&b, "\t\t\tp.%s = %s\n", n, seed.fields[n])
		}
	}
	b.WriteString("\t\t\treturn p\n\t\t},\n")
	// every byte-slice field preset
	fmt.Fprintf(&b, "\t\tfunc() *%s {\n\t\t\tp := new(%s)\n", m[1], m[1])
	if st, ok := elemOf(r.VC.root.Params[0].Type()).Underlying().(*types.Struct); ok {
		for i := 0; i < st.NumFields(); i++ {
			ft := st.Field(i).Type()
			if isSliceT(ft) && typeStr(elemOf(ft)) == "uint8" {
				fmt.Fprintf(&b, "\t\t\tp.%s = []byte(\"abc\")\n", st.Field(i).Name())
			}
		}
	}
	b.WriteString("\t\t\treturn p\n\t\t},\n\t}\n")
	b.WriteString("\tvar seeds [][]byte\n")
	if seed != nil && len(seed.data) <= 64 {
		fmt.Fprintf(&b, "\tseeds = append(seeds, %#v)\n", seed.data)
	}
	b.WriteString(searchBody)
	src := b.String() + "\n" + typeAlias
	out, _ := runOverlayTest(src, false)
	for _, line := range strings.Split(out, "\n") {
		if strings.HasPrefix(line, "REPLAY-FOUND") {
			return line + "\n\n--- search harness (go test -overlay, in package mq) ---\n" + src
		}
	}
	return ""
}

const searchBody = `
	try := func(variant int, data []byte) bool {
		done := make(chan string, 1)
		go func() {
			defer func() {
				if e := recover(); e != nil {
					if !hang && site != "" && strings.Contains(string(debug.Stack()), site) {
						done <- fmt.Sprint(e)
						return
					}
					done <- ""
				}
			}()
			p := mk[variant]()
			oldp := new(verifRecv)
			*oldp = *p
			in := append([]byte(nil), data...)
			oldin := append([]byte(nil), data...)
			res := p.UnmarshalBinary(in)
			if !verifPost(p, oldp, in, oldin, res) {
				done <- "postcondition violated: " + verifPostSrc
				return
			}
			done <- ""
		}()
		select {
		case r := <-done:
			if r != "" {
				fmt.Printf("REPLAY-FOUND receiver-variant=%d data=% x panic at %s: %s\n", variant, data, site, r)
				return true
			}
		case <-time.After(500 * time.Millisecond):
			if hang {
				fmt.Printf("REPLAY-FOUND receiver-variant=%d data=% x the call does not return (watchdog 500ms)\n", variant, data)
			}
			os.Stdout.Sync()
			os.Exit(3)
		}
		return false
	}
	alpha := []byte{0, 1, 2, 3, 4, 5, 0x0b, 0x1f, 0x26, 0x80, 0xff}
	var cands [][]byte
	for _, s := range seeds {
		cands = append(cands, s)
		for i := range s {
			for _, a := range alpha {
				c := append([]byte(nil), s...)
				c[i] = a
				cands = append(cands, c)
			}
			cands = append(cands, append([]byte(nil), s[:i]...))
		}
	}
	for _, c := range cands {
		for v := range mk {
			if try(v, c) {
				return
			}
		}
	}
	var rec func(prefix []byte, n int, al []byte) bool
	rec = func(prefix []byte, n int, al []byte) bool {
		if len(prefix) == n {
			for v := range mk {
				if try(v, prefix) {
					return true
				}
			}
			return false
		}
		for _, a := range al {
			if rec(append(prefix, a), n, al) {
				return true
			}
		}
		return false
	}
	for n := 0; n <= 6; n++ {
		if rec(nil, n, alpha) {
			return
		}
	}
	for n := 7; n <= 9; n++ {
		if rec(nil, n, []byte{0, 1, 0x26, 0x80}) {
			return
		}
	}
	fmt.Println("REPLAY-NOT-FOUND")
}
`

func writeFile(path, content string) {
	os.MkdirAll(filepath.Dir(path), 0o755)
	os.WriteFile(path, []byte(content), 0o644)
}
