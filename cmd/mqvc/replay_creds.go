package main

import "strings"

// Replay aid for information-flow obligations: two CONNECT packets that
// differ only in the bytes of equally long credentials must render the same.
func credentialsReplay(r *Result) string {
	if r.Ob.Kind != "secret-escape" && r.Ob.Kind != "secret-read" {
		return ""
	}
	out, _ := runOverlayTest(credsHarness, false)
	for _, line := range strings.Split(out, "\n") {
		if strings.HasPrefix(line, "REPLAY-FOUND") {
			return line + "\n\n--- credentials harness (go test -overlay, in package mq) ---\n" + credsHarness
		}
	}
	return ""
}

const credsHarness = `package mq

import (
	"bytes"
	"fmt"
	"testing"
)

func verifConnect(user, pass string, withWill bool) *Connect {
	c := NewConnect()
	c.SetClientID("client")
	c.SetKeepAlive(30)
	c.SetUsername(user)
	c.SetPassword([]byte(pass))
	c.SetAuthMethod("method")
	c.SetAuthData([]byte("authdata"))
	c.AddUserProp("key", "value")
	if withWill {
		w := NewPublish()
		w.SetTopicName("will/topic")
		w.SetPayload([]byte("gone"))
		w.SetQoS(1)
		w.AddUserProp("wk", "wv")
		c.SetWill(w)
	}
	return c
}

func TestVerifReplay(t *testing.T) {
	pairs := [][2][2]string{
		{{"alice", "secret-1"}, {"bobby", "SECRET-2"}},
		{{"u", "p"}, {"v", "q"}},
		{{"client", "authdata"}, {"tneilc", "atadhtua"}}, // values that coincide with other fields
	}
	for _, withWill := range []bool{false, true} {
		for _, pr := range pairs {
			a := verifConnect(pr[0][0], pr[0][1], withWill)
			b := verifConnect(pr[1][0], pr[1][1], withWill)
			if a.String() != b.String() {
				fmt.Printf("REPLAY-FOUND String() depends on the credential bytes: %q vs %q\n", a.String(), b.String())
				return
			}
			var da, db bytes.Buffer
			Dump(&da, a)
			Dump(&db, b)
			if da.String() != db.String() {
				fmt.Printf("REPLAY-FOUND Dump output depends on the credential bytes (credentials %q/%q vs %q/%q)\n", pr[0][0], pr[0][1], pr[1][0], pr[1][1])
				return
			}
		}
	}
	fmt.Println("REPLAY-NOT-FOUND")
}
`
