package main

import "strings"

// Replay aid for iteration-order obligations: packets of every type with all
// optional fields set are encoded repeatedly in one process; differing bytes
// demonstrate the order dependence on the real code.
func determinismReplay(r *Result) string {
	if r.Ob.Kind != "map-range-order" {
		return ""
	}
	out, _ := runOverlayTest(determinismHarness, false)
	for _, line := range strings.Split(out, "\n") {
		if strings.HasPrefix(line, "REPLAY-FOUND") {
			return line + "\n\n--- determinism harness (go test -overlay, in package mq) ---\n" + determinismHarness
		}
	}
	return ""
}

const determinismHarness = `package mq

import (
	"bytes"
	"fmt"
	"reflect"
	"strings"
	"testing"
)

// verifFill calls every SetX method of p with a non-zero argument.
func verifFill(p any) {
	v := reflect.ValueOf(p)
	t := v.Type()
	for i := 0; i < t.NumMethod(); i++ {
		m := t.Method(i)
		if !strings.HasPrefix(m.Name, "Set") || m.Type.NumIn() != 2 {
			continue
		}
		var arg reflect.Value
		switch at := m.Type.In(1); at.Kind() {
		case reflect.Bool:
			arg = reflect.ValueOf(true)
		case reflect.String:
			arg = reflect.ValueOf("x" + m.Name)
		case reflect.Uint8, reflect.Uint16, reflect.Uint32, reflect.Int:
			arg = reflect.ValueOf(1).Convert(at)
		case reflect.Slice:
			if at.Elem().Kind() == reflect.Uint8 {
				arg = reflect.ValueOf([]byte("y" + m.Name)).Convert(at)
			}
		}
		if arg.IsValid() {
			v.Method(i).Call([]reflect.Value{arg})
		}
	}
}

func TestVerifReplay(t *testing.T) {
	will := NewPublish()
	verifFill(will)
	will.SetQoS(1)
	c := NewConnect()
	verifFill(c)
	c.SetWill(will)
	c.SetWillDelayInterval(5)
	packets := []ControlPacket{c, NewConnAck(), NewPublish(), NewPubAck(), NewSubscribe(), NewSubAck(), NewUnsubscribe(), NewUnsubAck(), NewDisconnect(), NewAuth()}
	for _, p := range packets[1:] {
		verifFill(p)
	}
	for _, p := range packets {
		var first bytes.Buffer
		p.WriteTo(&first)
		for i := 0; i < 300; i++ {
			var b bytes.Buffer
			p.WriteTo(&b)
			if !bytes.Equal(b.Bytes(), first.Bytes()) {
				fmt.Printf("REPLAY-FOUND %T encoded twice gives different bytes (attempt %d):\n  % x\n  % x\n", p, i, first.Bytes(), b.Bytes())
				return
			}
		}
	}
	fmt.Println("REPLAY-NOT-FOUND")
}
`
