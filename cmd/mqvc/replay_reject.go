package main

import "strings"

// Replay aid for the rejection property: hand-built frames that MQTT obliges a
// decoder to refuse (truncated integer/string/variable byte integer, five byte
// variable byte integer, boolean property other than 0/1, undefined property
// identifier) are given to the real ReadPacket.
func rejectionReplay(prop string, r *Result) string {
	if prop != "C09" {
		return ""
	}
	out, _ := runOverlayTest(rejectHarness, false)
	for _, line := range strings.Split(out, "\n") {
		if strings.HasPrefix(line, "REPLAY-FOUND") {
			return line + "\n\n--- rejection harness (go test -overlay, in package mq) ---\n" + rejectHarness
		}
	}
	return ""
}

const rejectHarness = `package mq

import (
	"bytes"
	"fmt"
	"testing"
)

func TestVerifReplay(t *testing.T) {
	type tc struct {
		name  string
		frame []byte
	}
	cases := []tc{
		{"CONNACK property length as five byte variable byte integer", []byte{0x20, 0x07, 0x00, 0x00, 0x80, 0x80, 0x80, 0x80, 0x00}},
		{"CONNACK property length ends on a continuation byte", []byte{0x20, 0x03, 0x00, 0x00, 0x80}},
		{"CONNACK retain available = 2", []byte{0x20, 0x05, 0x00, 0x00, 0x02, 0x25, 0x02}},
		{"CONNACK undefined property identifier 0x7f", []byte{0x20, 0x05, 0x00, 0x00, 0x02, 0x7f, 0x00}},
		{"CONNACK receive maximum cut after one byte", []byte{0x20, 0x05, 0x00, 0x00, 0x02, 0x21, 0x00}},
		{"CONNACK session expiry cut after three bytes", []byte{0x20, 0x07, 0x00, 0x00, 0x04, 0x11, 0x00, 0x00, 0x00}},
		{"CONNACK reason string shorter than its prefix", []byte{0x20, 0x08, 0x00, 0x00, 0x05, 0x1f, 0x00, 0x05, 0x61, 0x62}},
		{"CONNACK identifier without value", []byte{0x20, 0x04, 0x00, 0x00, 0x01, 0x21}},
		{"PUBLISH topic length prefix cut", []byte{0x30, 0x01, 0x00}},
		{"PUBLISH topic shorter than prefix", []byte{0x30, 0x04, 0x00, 0x05, 0x61, 0x62}},
		{"PUBACK packet identifier cut", []byte{0x40, 0x01, 0x00}},
		{"SUBSCRIBE subscription identifier of five bytes", []byte{0x82, 0x0d, 0x00, 0x01, 0x06, 0x0b, 0x80, 0x80, 0x80, 0x80, 0x01, 0x00, 0x01, 0x61, 0x00}},
		{"SUBSCRIBE filter cut inside the string", []byte{0x82, 0x06, 0x00, 0x01, 0x00, 0x00, 0x05, 0x61}},
		{"CONNECT user property value cut", []byte{0x10, 0x12, 0x00, 0x04, 'M', 'Q', 'T', 'T', 0x05, 0x00, 0x00, 0x0a, 0x07, 0x26, 0x00, 0x01, 0x6b, 0x00, 0x05, 0x76}},
		{"remaining length of five bytes", []byte{0xe0, 0x80, 0x80, 0x80, 0x80, 0x00}},
	}
	// every identifier byte that MQTT v5.0 does not define, followed by a few plausible value bytes
	defined := map[byte]bool{0x01: true, 0x02: true, 0x03: true, 0x08: true, 0x09: true, 0x0b: true, 0x11: true, 0x12: true, 0x13: true, 0x15: true, 0x16: true, 0x17: true,
		0x18: true, 0x19: true, 0x1a: true, 0x1c: true, 0x1f: true, 0x21: true, 0x22: true, 0x23: true, 0x24: true, 0x25: true, 0x26: true, 0x27: true, 0x28: true, 0x29: true, 0x2a: true}
	tails := [][]byte{{}, {0x00}, {0x01}, {0x00, 0x00}, {0x00, 0x00, 0x0a}, {0x00, 0x00, 0x00, 0x00, 0x01}, {0x00, 0x00, 0x01, 0x61}, {0x00, 0x00, 0x01, 0x6b, 0x00, 0x01, 0x76}}
	for id := 0; id < 256; id++ {
		if defined[byte(id)] {
			continue
		}
		for _, tail := range tails {
			props := append([]byte{byte(id)}, tail...)
			// CONNACK: flags, reason code, properties; DISCONNECT: reason code, properties; PUBLISH qos 0: topic "a", properties
			cases = append(cases, tc{fmt.Sprintf("CONNACK undefined property identifier 0x%02x", id), append([]byte{0x20, byte(3 + len(props)), 0x00, 0x00, byte(len(props))}, props...)})
			cases = append(cases, tc{fmt.Sprintf("DISCONNECT undefined property identifier 0x%02x", id), append([]byte{0xe0, byte(2 + len(props)), 0x00, byte(len(props))}, props...)})
			cases = append(cases, tc{fmt.Sprintf("PUBLISH undefined property identifier 0x%02x", id), append([]byte{0x30, byte(4 + len(props)), 0x00, 0x01, 0x61, byte(len(props))}, props...)})
		}
	}
	found := 0
	for _, c := range cases {
		if found >= 5 {
			break
		}
		func() {
			defer func() {
				if e := recover(); e != nil {
					found++
					fmt.Printf("REPLAY-FOUND %s (frame % x): ReadPacket panicked: %v\n", c.name, c.frame, e)
				}
			}()
			p, err := ReadPacket(bytes.NewReader(c.frame))
			if err == nil || p != nil {
				found++
				fmt.Printf("REPLAY-FOUND %s (frame % x): ReadPacket returned packet=%v err=%v, expected a rejection\n", c.name, c.frame, p, err)
			}
		}()
	}
	fmt.Println("REPLAY-DONE")
}
`

// conformanceReplay: for C03, the generated table of valid frames (replay_c03_gen.go) is read by the real ReadPacket.
func conformanceReplay(prop string, r *Result) string {
	if prop != "C03" {
		return ""
	}
	out, _ := runOverlayTest(c03Harness, false)
	for _, line := range strings.Split(out, "\n") {
		if strings.HasPrefix(line, "REPLAY-FOUND") {
			return line
		}
	}
	return ""
}
