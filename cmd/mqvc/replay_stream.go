package main

// Replay aid for the stream-reading functions: concrete frames delivered
// through scripted readers (every split point, one byte at a time, zero-length
// reads, data together with EOF, failure at every cut offset). It looks for a
// concrete (frame, delivery schedule) on which the real ReadPacket contradicts
// the contract that failed: bytes consumed, result independent of the
// schedule, truncated streams reported.

import (
	"strings"
)

var streamRoots = map[string]bool{"ReadPacket": true, "(*fixedHeader).ReadRemaining": true, "(*fixedHeader).ReadFrom": true,
	"(*bits).ReadFrom": true, "(*vbint).ReadFrom": true, "io.ReadAtLeast": true}

func streamReplay(r *Result) string {
	if !streamRoots[shortFuncName(r.VC.root.String())] {
		return ""
	}
	out, _ := runOverlayTest(streamHarness, false)
	for _, line := range strings.Split(out, "\n") {
		if strings.HasPrefix(line, "REPLAY-FOUND") {
			return line + "\n\n--- stream harness (go test -overlay, in package mq) ---\n" + streamHarness
		}
	}
	return ""
}

const streamHarness = `package mq

import (
	"bytes"
	"errors"
	"fmt"
	"io"
	"testing"
)

// scripted reader: delivers stream[:n] in the given chunk sizes; a chunk of 0
// is a (0, nil) read; after the last chunk it returns (0, term); if withLast
// the final chunk is returned together with term.
type verifScripted struct {
	data     []byte
	chunks   []int
	term     error
	withLast bool
	pos      int
	k        int
	reads    int
}

func (s *verifScripted) Read(p []byte) (int, error) {
	s.reads++
	if s.reads > 100000 {
		return 0, errors.New("verif: reader polled too often")
	}
	if s.k >= len(s.chunks) {
		return 0, s.term
	}
	n := s.chunks[s.k]
	if n > len(p) {
		// deliver what fits, keep the rest of the chunk
		s.chunks[s.k] -= len(p)
		n = len(p)
	} else {
		s.k++
	}
	copy(p, s.data[s.pos:s.pos+n])
	s.pos += n
	if s.withLast && s.k >= len(s.chunks) {
		return n, s.term
	}
	return n, nil
}

func verifFrames() [][]byte {
	var out [][]byte
	add := func(p ControlPacket) {
		var b bytes.Buffer
		p.WriteTo(&b)
		out = append(out, b.Bytes())
	}
	pa := NewPubAck()
	pa.SetPacketID(7)
	add(pa)
	pub := NewPublish()
	pub.SetTopicName("a/b")
	pub.SetPayload([]byte("hello"))
	add(pub)
	c := NewConnect()
	c.SetClientID("cid")
	c.SetUsername("u")
	add(c)
	add(NewPingReq())
	sub := NewSubscribe()
	sub.SetPacketID(1)
	sub.AddFilters(NewTopicFilter("x", OptQoS1))
	add(sub)
	out = append(out, []byte{0x40, 0x02, 0xff}) // body of the wrong size (content-malformed)
	return out
}

func verifDescribe(p ControlPacket, err error) string {
	if err != nil {
		return "error"
	}
	return fmt.Sprintf("%T %s", p, p.String())
}

func TestVerifReplay(t *testing.T) {
	failure := errors.New("verif: transport failure")
	for _, frame := range verifFrames() {
		stream := append(append([]byte(nil), frame...), 0xde, 0xad)
		// reference: contiguous delivery
		ref := &verifScripted{data: stream, chunks: []int{len(stream)}, term: io.EOF}
		rp, rerr := ReadPacket(ref)
		want := verifDescribe(rp, rerr)
		if rerr == nil && ref.pos != len(frame) {
			// only an over-read can be seen here (the whole stream was offered)
		}
		var schedules [][]int
		for k := 1; k < len(frame); k++ {
			schedules = append(schedules, []int{k, len(stream) - k})
			schedules = append(schedules, []int{k, 0, len(stream) - k})
		}
		one := make([]int, len(stream))
		for i := range one {
			one[i] = 1
		}
		schedules = append(schedules, one, append([]int{0}, one...))
		for _, sch := range schedules {
			sr := &verifScripted{data: stream, chunks: append([]int(nil), sch...), term: io.EOF}
			p, err := ReadPacket(sr)
			got := verifDescribe(p, err)
			if got != want {
				fmt.Printf("REPLAY-FOUND frame=% x delivered in chunks %v: ReadPacket gives %q, contiguous delivery gives %q\n", frame, sch, got, want)
				return
			}
		}
		// the frame arrives complete, its last bytes together with io.EOF
		{
			sr := &verifScripted{data: frame, chunks: []int{len(frame)}, term: io.EOF, withLast: true}
			p, err := ReadPacket(sr)
			if got := verifDescribe(p, err); got != want {
				fmt.Printf("REPLAY-FOUND frame=% x delivered as (n, io.EOF): ReadPacket gives %q, contiguous delivery gives %q\n", frame, got, want)
				return
			}
		}
		// consumption: exactly the frame
		{
			sr := &verifScripted{data: stream, chunks: one, term: io.EOF}
			ReadPacket(sr)
			if sr.pos != len(frame) {
				fmt.Printf("REPLAY-FOUND frame=% x: ReadPacket consumed %d bytes of the stream, the frame has %d\n", frame, sr.pos, len(frame))
				return
			}
		}
		// the peer disappears / the transport fails after k bytes
		for k := 0; k < len(frame); k++ {
			for _, term := range []error{io.EOF, failure} {
				sr := &verifScripted{data: frame[:k], chunks: []int{k}, term: term}
				if k == 0 {
					sr.chunks = nil
				}
				p, err := ReadPacket(sr)
				if p != nil || err == nil {
					fmt.Printf("REPLAY-FOUND frame=% x cut after %d bytes (then %v): ReadPacket returned packet=%v err=%v\n", frame, k, term, p, err)
					return
				}
				if term == failure && !errors.Is(err, failure) {
					fmt.Printf("REPLAY-FOUND frame=% x transport failure after %d bytes: errors.Is(err, failure) is false, err=%v\n", frame, k, err)
					return
				}
				if k == 0 && term == io.EOF && !errors.Is(err, io.EOF) {
					fmt.Printf("REPLAY-FOUND stream ends on a frame boundary: errors.Is(err, io.EOF) is false, err=%v\n", err)
					return
				}
			}
		}
	}
	fmt.Println("REPLAY-NOT-FOUND")
}
`
