package main

// SMT-LIB term construction with light constant folding. Terms are strings.

import (
	"fmt"
	"math/big"
	"strings"
)

const (
	tTrue  = "true"
	tFalse = "false"
)

func sx(op string, args ...string) string {
	return "(" + op + " " + strings.Join(args, " ") + ")"
}

func intLit(n int64) string {
	if n < 0 {
		return fmt.Sprintf("(- %d)", -n)
	}
	return fmt.Sprintf("%d", n)
}

func bigLit(n *big.Int) string {
	if n.Sign() < 0 {
		return "(- " + new(big.Int).Neg(n).String() + ")"
	}
	return n.String()
}

// parseIntLit recognises literals produced by intLit/bigLit.
func parseIntLit(t string) (*big.Int, bool) {
	if t == "" {
		return nil, false
	}
	neg := false
	s := t
	if strings.HasPrefix(t, "(- ") && strings.HasSuffix(t, ")") {
		s = t[3 : len(t)-1]
		neg = true
	}
	for _, c := range s {
		if c < '0' || c > '9' {
			return nil, false
		}
	}
	n, ok := new(big.Int).SetString(s, 10)
	if !ok {
		return nil, false
	}
	if neg {
		n.Neg(n)
	}
	return n, true
}

func bvLit(v uint64, w int) string {
	if w < 64 {
		v &= (uint64(1) << uint(w)) - 1
	}
	return fmt.Sprintf("(_ bv%d %d)", v, w)
}

func parseBvLit(t string) (uint64, int, bool) {
	var v uint64
	var w int
	if n, err := fmt.Sscanf(t, "(_ bv%d %d)", &v, &w); err == nil && n == 2 {
		return v, w, true
	}
	return 0, 0, false
}

func isLit(t string) bool {
	if t == tTrue || t == tFalse {
		return true
	}
	if _, ok := parseIntLit(t); ok {
		return true
	}
	if _, _, ok := parseBvLit(t); ok {
		return true
	}
	return false
}

func and(ts ...string) string {
	var out []string
	seen := map[string]bool{}
	for _, t := range ts {
		if t == tTrue || t == "" {
			continue
		}
		if t == tFalse {
			return tFalse
		}
		if seen[t] {
			continue
		}
		seen[t] = true
		out = append(out, t)
	}
	switch len(out) {
	case 0:
		return tTrue
	case 1:
		return out[0]
	}
	return sx("and", out...)
}

func or(ts ...string) string {
	var out []string
	seen := map[string]bool{}
	for _, t := range ts {
		if t == tFalse || t == "" {
			continue
		}
		if t == tTrue {
			return tTrue
		}
		if seen[t] {
			continue
		}
		seen[t] = true
		out = append(out, t)
	}
	switch len(out) {
	case 0:
		return tFalse
	case 1:
		return out[0]
	}
	return sx("or", out...)
}

func not(t string) string {
	switch t {
	case tTrue:
		return tFalse
	case tFalse:
		return tTrue
	}
	if strings.HasPrefix(t, "(not ") {
		return t[5 : len(t)-1]
	}
	return sx("not", t)
}

func imp(a, b string) string {
	if a == tTrue {
		return b
	}
	if a == tFalse || b == tTrue {
		return tTrue
	}
	if b == tFalse {
		return not(a)
	}
	return sx("=>", a, b)
}

func ite(c, a, b string) string {
	if c == tTrue {
		return a
	}
	if c == tFalse {
		return b
	}
	if a == b {
		return a
	}
	if a == tTrue && b == tFalse {
		return c
	}
	if a == tFalse && b == tTrue {
		return not(c)
	}
	return sx("ite", c, a, b)
}

func eq(a, b string) string {
	if a == b {
		return tTrue
	}
	if isLit(a) && isLit(b) {
		if x, ok := parseIntLit(a); ok {
			if y, ok2 := parseIntLit(b); ok2 {
				if x.Cmp(y) == 0 {
					return tTrue
				}
				return tFalse
			}
		}
		if x, w, ok := parseBvLit(a); ok {
			if y, w2, ok2 := parseBvLit(b); ok2 && w == w2 {
				if x == y {
					return tTrue
				}
				return tFalse
			}
		}
		if (a == tTrue || a == tFalse) && (b == tTrue || b == tFalse) {
			return tFalse // a != b textually
		}
	}
	if b == tTrue {
		return a
	}
	if a == tTrue {
		return b
	}
	if b == tFalse {
		return not(a)
	}
	if a == tFalse {
		return not(b)
	}
	return sx("=", a, b)
}

func neq(a, b string) string { return not(eq(a, b)) }

func add(a, b string) string {
	x, okx := parseIntLit(a)
	y, oky := parseIntLit(b)
	if okx && oky {
		return bigLit(new(big.Int).Add(x, y))
	}
	if okx && x.Sign() == 0 {
		return b
	}
	if oky && y.Sign() == 0 {
		return a
	}
	return sx("+", a, b)
}

func sub(a, b string) string {
	x, okx := parseIntLit(a)
	y, oky := parseIntLit(b)
	if okx && oky {
		return bigLit(new(big.Int).Sub(x, y))
	}
	if oky && y.Sign() == 0 {
		return a
	}
	if a == b {
		return "0"
	}
	return sx("-", a, b)
}

func mul(a, b string) string {
	x, okx := parseIntLit(a)
	y, oky := parseIntLit(b)
	if okx && oky {
		return bigLit(new(big.Int).Mul(x, y))
	}
	if okx && x.Cmp(big.NewInt(1)) == 0 {
		return b
	}
	if oky && y.Cmp(big.NewInt(1)) == 0 {
		return a
	}
	if (okx && x.Sign() == 0) || (oky && y.Sign() == 0) {
		return "0"
	}
	return sx("*", a, b)
}

func cmpFold(op string, a, b string) (string, bool) {
	x, okx := parseIntLit(a)
	y, oky := parseIntLit(b)
	if !(okx && oky) {
		return "", false
	}
	c := x.Cmp(y)
	var r bool
	switch op {
	case "<":
		r = c < 0
	case "<=":
		r = c <= 0
	case ">":
		r = c > 0
	case ">=":
		r = c >= 0
	}
	if r {
		return tTrue, true
	}
	return tFalse, true
}

func lt(a, b string) string {
	if r, ok := cmpFold("<", a, b); ok {
		return r
	}
	return sx("<", a, b)
}
func le(a, b string) string {
	if r, ok := cmpFold("<=", a, b); ok {
		return r
	}
	if a == b {
		return tTrue
	}
	return sx("<=", a, b)
}
func gt(a, b string) string { return lt(b, a) }
func ge(a, b string) string { return le(b, a) }

func sel(arr, idx string) string { return sx("select", arr, idx) }
func store(arr, idx, v string) string {
	return sx("store", arr, idx, v)
}

var two64 = new(big.Int).Lsh(big.NewInt(1), 64)
var two63 = new(big.Int).Lsh(big.NewInt(1), 63)

func pow2(n uint) *big.Int { return new(big.Int).Lsh(big.NewInt(1), n) }

// sanitize makes a string usable inside an SMT symbol.
func sanitize(s string) string {
	var b strings.Builder
	for _, c := range s {
		switch {
		case c >= 'a' && c <= 'z', c >= 'A' && c <= 'Z', c >= '0' && c <= '9', c == '_', c == '.':
			b.WriteRune(c)
		case c == '*':
			b.WriteString("P")
		case c == '[':
			b.WriteString("L")
		case c == ']':
			b.WriteString("J")
		case c == '/':
			b.WriteString(".")
		default:
			b.WriteString("_")
		}
	}
	return b.String()
}
