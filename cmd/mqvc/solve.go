package main

import (
	"bytes"
	"context"
	"fmt"
	"os"
	"os/exec"
	"path/filepath"
	"strings"
	"sync"
	"time"
)

type Result struct {
	Ob     *Obligation
	Status string // unsat | sat | unknown | timeout | error
	Solver string
	Secs   float64
	Output string
	VC     *VC
	RelaxedSat bool
}

type solveOpts struct {
	timeoutMs int
	noRace    bool
	keep      bool
}

var workDir = func() string {
	d := os.Getenv("MQVC_WORK")
	if d == "" {
		d = "/verif/.work"
	}
	os.MkdirAll(d, 0o755)
	return d
}()

// raceSem bounds the number of obligations raced at the same time over all VCs of a run (six solver
// processes each): the time limits are wall-clock, so the machine must not be oversubscribed
var raceSem = make(chan struct{}, 4)

var tmpSeq int
var tmpMu sync.Mutex

func tmpFile(prefix string) string {
	tmpMu.Lock()
	defer tmpMu.Unlock()
	tmpSeq++
	return filepath.Join(workDir, fmt.Sprintf("%s-%d-%d.smt2", sanitize(prefix), os.Getpid(), tmpSeq))
}

type solverSpec struct {
	name string
	args func(file string, ms int) []string
}

var solvers = []solverSpec{
	{"z3-new", func(f string, ms int) []string { return []string{"z3-new", fmt.Sprintf("-t:%d", ms), f} }},
	{"z3", func(f string, ms int) []string { return []string{"z3", fmt.Sprintf("-t:%d", ms), f} }},
	{"cvc5", func(f string, ms int) []string {
		return []string{"cvc5", "--incremental", fmt.Sprintf("--tlimit-per=%d", ms), f}
	}},
}

func runSolver(s solverSpec, file string, ms int, hard time.Duration) (string, float64) {
	return runSolverCtx(context.Background(), s, file, ms, hard)
}

// cpuTokens: one per solver process; the solvers' time limits are wall-clock, so a proof must not
// depend on how many other queries happen to run at the same moment
var cpuTokens = make(chan struct{}, 14)

func runSolverCtx(parent context.Context, s solverSpec, file string, ms int, hard time.Duration) (string, float64) {
	select {
	case cpuTokens <- struct{}{}:
	case <-parent.Done():
		return "", 0
	}
	defer func() { <-cpuTokens }()
	ctx, cancel := context.WithTimeout(parent, hard)
	defer cancel()
	a := s.args(file, ms)
	cmd := exec.CommandContext(ctx, a[0], a[1:]...)
	var out bytes.Buffer
	cmd.Stdout = &out
	cmd.Stderr = &out
	t0 := time.Now()
	cmd.Run()
	return out.String(), time.Since(t0).Seconds()
}

// solveVC checks every obligation of the VC: first the whole incremental
// script on z3-new, then the undecided ones raced on all solvers.
func solveVC(vc *VC, o solveOpts) []*Result {
	obs := vc.obligations()
	if len(obs) == 0 {
		return nil
	}
	hard := time.Duration(len(obs)*o.timeoutMs+20000) * time.Millisecond
	if max := time.Duration(12*o.timeoutMs) * time.Millisecond; hard > max {
		hard = max // a VC that needs this long is a generator problem, not a proof
	}
	pass1 := o.timeoutMs
	if pass1 > 3000 {
		pass1 = 3000 // whatever the quantifier-free pass cannot decide quickly goes to the race
	}
	// pass 1: quantified hypotheses dropped (sound weakening); large VCs are
	// sharded: every process assumes all obligations but checks only its share
	shards := 1
	if len(obs) > 150 {
		shards = 4
	}
	status := map[string]string{}
	var errLines []string
	secs := 0.0
	// runPass checks the obligations in only (nil: all) with the given solver and records the answers;
	// weak: only unsat answers count (the pass runs under a sound weakening of the theory)
	runPass := func(sv solverSpec, perCheck int, only map[string]bool, weak bool) {
		outs := make([]string, shards)
		secsS := make([]float64, shards)
		var swg sync.WaitGroup
		for k := 0; k < shards; k++ {
			swg.Add(1)
			go func(k int) {
				defer swg.Done()
				file := tmpFile(shortFuncName(vc.root.String()))
				os.WriteFile(file, []byte(vc.scriptShardOnly(true, k, shards, only)), 0o644)
				outs[k], secsS[k] = runSolver(sv, file, perCheck, hard)
				if !o.keep {
					os.Remove(file)
				}
			}(k)
		}
		swg.Wait()
		for _, s := range secsS {
			secs += s
		}
		lines := strings.Split(strings.Join(outs, "\n"), "\n")
		for i := 0; i < len(lines); i++ {
			l := strings.TrimSpace(lines[i])
			l = strings.Trim(l, "\"")
			if l == "@VACUITY" && i+1 < len(lines) && strings.TrimSpace(lines[i+1]) == "unsat" {
				errLines = append(errLines, "(error \"VACUOUS: the assumptions of this VC are contradictory\")")
			}
			if strings.HasPrefix(l, "@OB ") {
				name := l[4:]
				if i+1 < len(lines) {
					st := strings.TrimSpace(lines[i+1])
					if weak && st != "unsat" {
						continue
					}
					status[name] = st
				}
			}
		}
		for _, l := range lines {
			if strings.Contains(l, "(error") {
				errLines = append(errLines, l)
			}
		}
	}
	// pass 0: integer/bit-vector conversions uninterpreted (z3 smt.bv.enable_int2bv=false) - a sound
	// weakening that makes the many obligations that never look inside a conversion cheap
	if os.Getenv("MQVC_NOPASS0") == "" && (vc.w.prop == "C03" || os.Getenv("MQVC_PASS0") != "") {
		runPass(solverSpec{"z3-new/uf", func(f string, ms int) []string {
			return []string{"z3-new", "smt.bv.enable_int2bv=false", fmt.Sprintf("-t:%d", ms), f}
		}}, 1000, nil, true)
	}
	tPass0 := secs
	only := map[string]bool{}
	for _, ob := range obs {
		if status[ob.Name] != "unsat" {
			only[ob.Name] = true
		}
	}
	if len(only) > 0 && len(errLines) == 0 {
		// pass 1: the undecided ones on z3 with its full theory and, in parallel, on cvc5 (which handles the
		// integer/bit-vector conversions far better); an unsat from either decides
		saved := status
		status = map[string]string{}
		var cvStatus map[string]string
		var cvErr []string
		var pw sync.WaitGroup
		pw.Add(1)
		// (cvc5 only where it pays: the decoder conformance VCs of C03; elsewhere loading the script costs more than it decides)
		useCvc5 := vc.w.prop == "C03" || os.Getenv("MQVC_PASS1_CVC5") != ""
		z3ms := pass1
		go func() {
			defer pw.Done()
			if useCvc5 {
				cvStatus, cvErr = runPassOn(vc, solvers[2], pass1+2000, only, shards, hard, o)
			}
		}()
		if useCvc5 {
			z3ms = pass1 / 2
		}
		runPass(solvers[0], z3ms, only, false)
		pw.Wait()
		for k, v := range saved {
			if _, ok := status[k]; !ok || v == "unsat" {
				status[k] = v
			}
		}
		if len(cvErr) == 0 {
			for k, v := range cvStatus {
				if v == "unsat" {
					status[k] = "unsat"
				}
			}
		}
	}
	if os.Getenv("MQVC_TIMING") != "" {
		fmt.Fprintf(os.Stderr, "timing pass0 %.1fs (left %d of %d), pass1 %.1fs cpu\n", tPass0, len(only), len(obs), secs-tPass0)
	}
	results := make([]*Result, len(obs))
	var pending []int
	if len(errLines) > 0 {
		// a malformed script decides nothing
		status = map[string]string{}
	}
	for i, ob := range obs {
		r := &Result{Ob: ob, Solver: "z3-new/qf", Secs: secs / float64(len(obs)), VC: vc}
		if and(ob.Reach, not(ob.Goal)) == tFalse {
			r.Status, r.Solver, r.Secs = "unsat", "simplifier", 0
			results[i] = r
			continue
		}
		switch status[ob.Name] {
		case "unsat":
			r.Status = "unsat"
		case "sat":
			r.Status = "sat"
			r.RelaxedSat = true
		case "unknown":
			r.Status = "unknown"
		default:
			r.Status = "error"
			r.Output = strings.Join(errLines, "\n")
			if len(r.Output) > 2000 {
				r.Output = r.Output[:2000]
			}
		}
		results[i] = r
		if r.Status != "unsat" {
			pending = append(pending, i)
		}
	}
	if o.noRace || len(pending) == 0 {
		return results
	}
	var wg sync.WaitGroup
	for _, i := range pending {
		wg.Add(1)
		go func(i int) {
			defer wg.Done()
			raceSem <- struct{}{}
			defer func() { <-raceSem }()
			raceOne(vc, results[i], o)
		}(i)
	}
	wg.Wait()
	return results
}

// raceOne runs a standalone query for the obligation on all solvers.
func raceOne(vc *VC, r *Result, o solveOpts) {
	file := tmpFile("ob-" + r.Ob.Name)
	os.WriteFile(file, []byte(vc.standalone(r.Ob, false, nil)), 0o644) // full hypotheses
	if os.Getenv("MQVC_KEEP") == "" {
		defer os.Remove(file)
	}
	type ans struct {
		solver string
		status string
		secs   float64
		out    string
	}
	// the same obligation without the quantified hypotheses (their instances stay): an unsat there is
	// just as good, and the other two solvers are often much faster on it than on the full query
	fileQF := tmpFile("obqf-" + r.Ob.Name)
	os.WriteFile(fileQF, []byte(vc.standalone(r.Ob, true, nil)), 0o644)
	defer os.Remove(fileQF)
	ch := make(chan ans, 2*len(solvers)+2)
	r.Status, r.Solver = "unknown", "all"
	ms := 5 * o.timeoutMs // generous
	if ms > 120000 {
		ms = 120000 // thorough tier: 120 s per obligation and solver
	}
	_ = 0 // generous: only obligations the first pass could not decide get here
	ctx, cancel := context.WithCancel(context.Background())
	defer cancel()
	for _, s := range solvers {
		go func(s solverSpec) {
			out, secs := runSolverCtx(ctx, s, file, ms, time.Duration(ms+5000)*time.Millisecond)
			first := ""
			for _, l := range strings.Split(out, "\n") {
				l = strings.TrimSpace(l)
				if l == "sat" || l == "unsat" || l == "unknown" || l == "timeout" {
					first = l
					break
				}
			}
			if first == "" {
				first = "error"
			}
			ch <- ans{s.name, first, secs, out}
		}(s)
	}
	for _, s := range solvers {
		go func(s solverSpec) {
			out, secs := runSolverCtx(ctx, s, fileQF, ms, time.Duration(ms+5000)*time.Millisecond)
			first := "unknown"
			for _, l := range strings.Split(out, "\n") {
				if strings.TrimSpace(l) == "unsat" {
					first = "unsat"
					break
				}
			}
			ch <- ans{s.name + "/qf", first, secs, ""}
		}(s)
	}
	for i := 0; i < 2*len(solvers); i++ {
		a := <-ch
		if a.status == "unsat" {
			r.Status, r.Solver, r.Secs = "unsat", a.solver, a.secs
			return
		}
		if a.status == "sat" {
			r.Status, r.Solver, r.Secs = "sat", a.solver, a.secs
			return
		}
		if a.secs > r.Secs {
			r.Secs = a.secs
		}
		if a.status == "error" && r.Output == "" {
			r.Output = a.out
			if len(r.Output) > 2000 {
				r.Output = r.Output[:2000]
			}
		}
	}
}

// runPassOn runs the sharded incremental script for the obligations in only on one solver and
// returns the per-obligation answers (used for the second engine of pass 1).
func runPassOn(vc *VC, sv solverSpec, perCheck int, only map[string]bool, shards int, hard time.Duration, o solveOpts) (map[string]string, []string) {
	status := map[string]string{}
	var errLines []string
	outs := make([]string, shards)
	var swg sync.WaitGroup
	for k := 0; k < shards; k++ {
		swg.Add(1)
		go func(k int) {
			defer swg.Done()
			file := tmpFile(shortFuncName(vc.root.String()) + "-" + sv.name)
			os.WriteFile(file, []byte(vc.scriptShardOnly(true, k, shards, only)), 0o644)
			outs[k], _ = runSolver(sv, file, perCheck, hard)
			if !o.keep {
				os.Remove(file)
			}
		}(k)
	}
	swg.Wait()
	lines := strings.Split(strings.Join(outs, "\n"), "\n")
	for i := 0; i < len(lines); i++ {
		l := strings.Trim(strings.TrimSpace(lines[i]), "\"")
		if strings.HasPrefix(l, "@OB ") && i+1 < len(lines) {
			status[l[4:]] = strings.TrimSpace(lines[i+1])
		}
		if strings.Contains(l, "(error") {
			errLines = append(errLines, l)
		}
	}
	return status, errLines
}
