package main

import (
	"bytes"
	"context"
	"fmt"
	"os"
	"os/exec"
	"path/filepath"
	"strings"
	"sync"
	"time"
)

type Result struct {
	Ob     *Obligation
	Status string // unsat | sat | unknown | timeout | error
	Solver string
	Secs   float64
	Output string
	VC     *VC
	RelaxedSat bool
}

type solveOpts struct {
	timeoutMs int
	noRace    bool
	keep      bool
}

var workDir = func() string {
	d := os.Getenv("MQVC_WORK")
	if d == "" {
		d = "/verif/.work"
	}
	os.MkdirAll(d, 0o755)
	return d
}()

var tmpSeq int
var tmpMu sync.Mutex

func tmpFile(prefix string) string {
	tmpMu.Lock()
	defer tmpMu.Unlock()
	tmpSeq++
	return filepath.Join(workDir, fmt.Sprintf("%s-%d-%d.smt2", sanitize(prefix), os.Getpid(), tmpSeq))
}

type solverSpec struct {
	name string
	args func(file string, ms int) []string
}

var solvers = []solverSpec{
	{"z3-new", func(f string, ms int) []string { return []string{"z3-new", fmt.Sprintf("-t:%d", ms), f} }},
	{"z3", func(f string, ms int) []string { return []string{"z3", fmt.Sprintf("-t:%d", ms), f} }},
	{"cvc5", func(f string, ms int) []string {
		return []string{"cvc5", "--incremental", fmt.Sprintf("--tlimit-per=%d", ms), f}
	}},
}

func runSolver(s solverSpec, file string, ms int, hard time.Duration) (string, float64) {
	return runSolverCtx(context.Background(), s, file, ms, hard)
}

func runSolverCtx(parent context.Context, s solverSpec, file string, ms int, hard time.Duration) (string, float64) {
	ctx, cancel := context.WithTimeout(parent, hard)
	defer cancel()
	a := s.args(file, ms)
	cmd := exec.CommandContext(ctx, a[0], a[1:]...)
	var out bytes.Buffer
	cmd.Stdout = &out
	cmd.Stderr = &out
	t0 := time.Now()
	cmd.Run()
	return out.String(), time.Since(t0).Seconds()
}

// solveVC checks every obligation of the VC: first the whole incremental
// script on z3-new, then the undecided ones raced on all solvers.
func solveVC(vc *VC, o solveOpts) []*Result {
	obs := vc.obligations()
	if len(obs) == 0 {
		return nil
	}
	hard := time.Duration(len(obs)*o.timeoutMs+20000) * time.Millisecond
	if max := time.Duration(12*o.timeoutMs) * time.Millisecond; hard > max {
		hard = max // a VC that needs this long is a generator problem, not a proof
	}
	pass1 := o.timeoutMs
	if pass1 > 3000 {
		pass1 = 3000 // whatever the quantifier-free pass cannot decide quickly goes to the race
	}
	// pass 1: quantified hypotheses dropped (sound weakening); large VCs are
	// sharded: every process assumes all obligations but checks only its share
	shards := 1
	if len(obs) > 150 {
		shards = 4
	}
	outs := make([]string, shards)
	secsS := make([]float64, shards)
	var swg sync.WaitGroup
	for k := 0; k < shards; k++ {
		swg.Add(1)
		go func(k int) {
			defer swg.Done()
			file := tmpFile(shortFuncName(vc.root.String()))
			os.WriteFile(file, []byte(vc.scriptShard(true, k, shards)), 0o644)
			outs[k], secsS[k] = runSolver(solvers[0], file, pass1, hard)
			if !o.keep {
				os.Remove(file)
			}
		}(k)
	}
	swg.Wait()
	out := strings.Join(outs, "\n")
	secs := 0.0
	for _, s := range secsS {
		secs += s
	}
	status := map[string]string{}
	var errLines []string
	lines := strings.Split(out, "\n")
	for i := 0; i < len(lines); i++ {
		l := strings.TrimSpace(lines[i])
		l = strings.Trim(l, "\"")
		if l == "@VACUITY" && i+1 < len(lines) && strings.TrimSpace(lines[i+1]) == "unsat" {
			errLines = append(errLines, "(error \"VACUOUS: the assumptions of this VC are contradictory\")")
		}
		if strings.HasPrefix(l, "@OB ") {
			name := l[4:]
			if i+1 < len(lines) {
				status[name] = strings.TrimSpace(lines[i+1])
			}
		}
	}
	for _, l := range lines {
		if strings.Contains(l, "(error") {
			errLines = append(errLines, l)
		}
	}
	results := make([]*Result, len(obs))
	var pending []int
	if len(errLines) > 0 {
		// a malformed script decides nothing
		status = map[string]string{}
	}
	for i, ob := range obs {
		r := &Result{Ob: ob, Solver: "z3-new/qf", Secs: secs / float64(len(obs)), VC: vc}
		if and(ob.Reach, not(ob.Goal)) == tFalse {
			r.Status, r.Solver, r.Secs = "unsat", "simplifier", 0
			results[i] = r
			continue
		}
		switch status[ob.Name] {
		case "unsat":
			r.Status = "unsat"
		case "sat":
			r.Status = "sat"
			r.RelaxedSat = true
		case "unknown":
			r.Status = "unknown"
		default:
			r.Status = "error"
			r.Output = strings.Join(errLines, "\n")
			if len(r.Output) > 2000 {
				r.Output = r.Output[:2000]
			}
		}
		results[i] = r
		if r.Status != "unsat" {
			pending = append(pending, i)
		}
	}
	if o.noRace || len(pending) == 0 {
		return results
	}
	var wg sync.WaitGroup
	sem := make(chan struct{}, 8)
	for _, i := range pending {
		wg.Add(1)
		go func(i int) {
			defer wg.Done()
			sem <- struct{}{}
			defer func() { <-sem }()
			raceOne(vc, results[i], o)
		}(i)
	}
	wg.Wait()
	return results
}

// raceOne runs a standalone query for the obligation on all solvers.
func raceOne(vc *VC, r *Result, o solveOpts) {
	file := tmpFile("ob-" + r.Ob.Name)
	os.WriteFile(file, []byte(vc.standalone(r.Ob, false, nil)), 0o644) // full hypotheses
	defer os.Remove(file)
	type ans struct {
		solver string
		status string
		secs   float64
		out    string
	}
	ch := make(chan ans, len(solvers))
	r.Status, r.Solver = "unknown", "all"
	ms := 3 * o.timeoutMs // generous: only obligations the first pass could not decide get here
	ctx, cancel := context.WithCancel(context.Background())
	defer cancel()
	for _, s := range solvers {
		go func(s solverSpec) {
			out, secs := runSolverCtx(ctx, s, file, ms, time.Duration(ms+5000)*time.Millisecond)
			first := ""
			for _, l := range strings.Split(out, "\n") {
				l = strings.TrimSpace(l)
				if l == "sat" || l == "unsat" || l == "unknown" || l == "timeout" {
					first = l
					break
				}
			}
			if first == "" {
				first = "error"
			}
			ch <- ans{s.name, first, secs, out}
		}(s)
	}
	for range solvers {
		a := <-ch
		if a.status == "unsat" {
			r.Status, r.Solver, r.Secs = "unsat", a.solver, a.secs
			return
		}
		if a.status == "sat" {
			r.Status, r.Solver, r.Secs = "sat", a.solver, a.secs
			return
		}
		if a.secs > r.Secs {
			r.Secs = a.secs
		}
		if a.status == "error" && r.Output == "" {
			r.Output = a.out
			if len(r.Output) > 2000 {
				r.Output = r.Output[:2000]
			}
		}
	}
}
