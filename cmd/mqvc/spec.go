package main

// The contract language: a small expression parser (Go-like expressions plus
// ==>, forall/exists, old(), ?:) and the contract file reader.

import (
	"fmt"
	"os"
	"sort"
	"strconv"
	"strings"
)

type Node struct {
	Kind string // num, ident, unary, binary, call, index, slice, sel, forall, exists, cond, type
	Op   string
	Name string
	Args []*Node
	Src  string
}

type tok struct {
	k string // id, num, op, eof
	s string
}

func lexSpec(s string) ([]tok, error) {
	var out []tok
	i := 0
	ops := []string{"==>", "<==>", "..", "&&", "||", "==", "!=", "<=", ">=", "<<", ">>", "&^",
		"+", "-", "*", "/", "%", "&", "|", "^", "<", ">", "!", "(", ")", "[", "]", ",", ":", "?", ".", "{", "}"}
	for i < len(s) {
		c := s[i]
		switch {
		case c == ' ' || c == '\t' || c == '\n':
			i++
		case c >= '0' && c <= '9':
			j := i
			for j < len(s) && (s[j] >= '0' && s[j] <= '9' || s[j] >= 'a' && s[j] <= 'f' || s[j] >= 'A' && s[j] <= 'F' || s[j] == 'x' || s[j] == '_') {
				j++
			}
			out = append(out, tok{"num", s[i:j]})
			i = j
		case c == '_' || c == '$' || c >= 'a' && c <= 'z' || c >= 'A' && c <= 'Z':
			j := i + 1
			for j < len(s) && (s[j] == '_' || s[j] == '$' || s[j] >= 'a' && s[j] <= 'z' || s[j] >= 'A' && s[j] <= 'Z' || s[j] >= '0' && s[j] <= '9') {
				j++
			}
			out = append(out, tok{"id", s[i:j]})
			i = j
		default:
			found := false
			for _, o := range ops {
				if strings.HasPrefix(s[i:], o) {
					// "<==>" must win over "<="; ops are ordered accordingly
					out = append(out, tok{"op", o})
					i += len(o)
					found = true
					break
				}
			}
			if !found {
				return nil, fmt.Errorf("bad character %q in %q", c, s)
			}
		}
	}
	out = append(out, tok{"eof", ""})
	return out, nil
}

type specParser struct {
	toks []tok
	p    int
	src  string
}

func parseSpec(s string) (*Node, error) {
	toks, err := lexSpec(s)
	if err != nil {
		return nil, err
	}
	p := &specParser{toks: toks, src: s}
	var n *Node
	func() {
		defer func() {
			if r := recover(); r != nil {
				err = fmt.Errorf("%v in %q", r, s)
			}
		}()
		n = p.expr(0)
		if p.peek().k != "eof" {
			panic("trailing tokens at " + p.peek().s)
		}
	}()
	if n != nil {
		n.Src = s
	}
	return n, err
}

func (p *specParser) peek() tok { return p.toks[p.p] }
func (p *specParser) next() tok { t := p.toks[p.p]; p.p++; return t }
func (p *specParser) accept(s string) bool {
	if t := p.peek(); t.k == "op" && t.s == s {
		p.p++
		return true
	}
	return false
}
func (p *specParser) expect(s string) {
	if !p.accept(s) {
		panic("expected " + s + " got " + p.peek().s)
	}
}

var binPrec = map[string]int{
	"<==>": 1, "==>": 2, "?": 3, "||": 4, "&&": 5,
	"==": 6, "!=": 6, "<": 6, "<=": 6, ">": 6, ">=": 6,
	"+": 7, "-": 7, "|": 7, "^": 7,
	"*": 8, "/": 8, "%": 8, "<<": 8, ">>": 8, "&": 8, "&^": 8,
}

func (p *specParser) expr(min int) *Node {
	t := p.peek()
	if t.k == "id" && (t.s == "forall" || t.s == "exists") {
		p.next()
		v := p.next()
		if in := p.next(); in.s != "in" {
			panic("expected 'in'")
		}
		lo := p.expr(4)
		p.expect("..")
		hi := p.expr(4)
		p.expect(":")
		body := p.expr(0)
		return &Node{Kind: t.s, Name: v.s, Args: []*Node{lo, hi, body}}
	}
	lhs := p.unary()
	for {
		t := p.peek()
		if t.k != "op" {
			return lhs
		}
		prec, ok := binPrec[t.s]
		if !ok || prec < min {
			return lhs
		}
		p.next()
		if t.s == "?" {
			a := p.expr(0)
			p.expect(":")
			b := p.expr(prec)
			lhs = &Node{Kind: "cond", Args: []*Node{lhs, a, b}}
			continue
		}
		var rhs *Node
		if t.s == "==>" {
			rhs = p.expr(prec) // right associative
		} else {
			rhs = p.expr(prec + 1)
		}
		lhs = &Node{Kind: "binary", Op: t.s, Args: []*Node{lhs, rhs}}
	}
}

func (p *specParser) unary() *Node {
	t := p.peek()
	if t.k == "op" {
		switch t.s {
		case "!", "-", "*", "&", "^":
			p.next()
			x := p.unary()
			return &Node{Kind: "unary", Op: t.s, Args: []*Node{x}}
		}
	}
	return p.postfix(p.primary())
}

func (p *specParser) primary() *Node {
	t := p.next()
	switch t.k {
	case "num":
		return &Node{Kind: "num", Name: strings.ReplaceAll(t.s, "_", "")}
	case "id":
		return &Node{Kind: "ident", Name: t.s}
	case "op":
		if t.s == "(" {
			// parenthesised expression or pointer type in a conversion (*T)
			e := p.expr(0)
			p.expect(")")
			return &Node{Kind: "paren", Args: []*Node{e}}
		}
	}
	panic("unexpected token " + t.s)
}

func (p *specParser) postfix(n *Node) *Node {
	for {
		switch {
		case p.accept("("):
			var args []*Node
			for !p.accept(")") {
				args = append(args, p.expr(0))
				if !p.accept(",") {
					p.expect(")")
					break
				}
			}
			n = &Node{Kind: "call", Args: append([]*Node{n}, args...)}
		case p.accept("["):
			var lo, hi *Node
			if !(p.peek().k == "op" && p.peek().s == ":") {
				lo = p.expr(0)
			}
			if p.accept(":") {
				if !(p.peek().k == "op" && p.peek().s == "]") {
					hi = p.expr(0)
				}
				p.expect("]")
				n = &Node{Kind: "slice", Args: []*Node{n, lo, hi}}
			} else {
				p.expect("]")
				n = &Node{Kind: "index", Args: []*Node{n, lo}}
			}
		case p.accept("."):
			id := p.next()
			n = &Node{Kind: "sel", Name: id.s, Args: []*Node{n}}
		default:
			return n
		}
	}
}

func parseNum(s string) (string, error) {
	v, err := strconv.ParseUint(s, 0, 64)
	if err != nil {
		return "", err
	}
	return strconv.FormatUint(v, 10), nil
}

// ---- contracts ----

type Clause struct {
	Expr      *Node
	Src       string
	Tags      []string
	Label     string
	RootScope bool // evaluated in the root function's scope (derived invariants)
	Mixed     bool // a root function's clause on the loop of an inlined callee: callee scope plus self/root_<param>
}

// Mark records a ghost value when an inlined function returns: $name_<k> for
// the k-th call site (source order) of that function in the calling function.
type Mark struct {
	Name string
	Expr *Node
	Tags []string
}

type LoopContract struct {
	Invariants []Clause
	Decreases  []Clause
	Assigns    []Clause // loop frame: everything else that existed before the loop is unchanged
	Latch      []Clause // must hold at every back edge (a fact about one iteration); never assumed
}

type Contract struct {
	Func     string
	Requires []Clause
	Ensures  []Clause
	Assigns  []Clause
	Loops    map[int]*LoopContract
	Pure     bool // no heap effect, no allocation
	Trusted  bool // body not verified (listed as assumption)
	Inline   bool // never use the contract at call sites; verify as root only
	Lemmas   []Clause
	Line     int
	Lets     map[string]*Node
	GlobalInvs []Clause
	OnlyFor    []string // used as a contract only when checking these properties; inlined otherwise
	Marks      []Mark
	Within     map[string]*LoopContract // "callee#ord": clauses of this (root) function on loops of inlined callees
}

type typeInvariant struct {
	Recv   string
	Clause Clause
}

var typeInvariants []typeInvariant

// readContracts parses //@ lines of the given file.
func readContracts(path string) (map[string]*Contract, error) {
	data, err := os.ReadFile(path)
	if err != nil {
		if os.IsNotExist(err) {
			return map[string]*Contract{}, nil
		}
		return nil, err
	}
	out := map[string]*Contract{}
	var cur *Contract
	var curLoop *LoopContract
	var curWithin bool
	var lastClause *Clause
	lines := strings.Split(string(data), "\n")
	for ln, line := range lines {
		line = strings.TrimSpace(line)
		if !strings.HasPrefix(line, "//@") {
			continue
		}
		body := strings.TrimSpace(line[3:])
		if body == "" || strings.HasPrefix(body, "--") {
			continue
		}
		// tags
		var tags []string
		for {
			i := strings.LastIndex(body, "#")
			if i < 0 {
				break
			}
			tag := strings.TrimSpace(body[i+1:])
			if !isTag(tag) {
				break
			}
			tags = append([]string{tag}, tags...)
			body = strings.TrimSpace(body[:i])
		}
		word, rest := splitWord(body)
		mk := func(src string) (Clause, error) {
			label := ""
			if i := strings.Index(src, "::"); i > 0 && !strings.ContainsAny(src[:i], " ()") {
				label = src[:i]
				src = strings.TrimSpace(src[i+2:])
			}
			n, err := parseSpec(src)
			if err != nil {
				return Clause{}, fmt.Errorf("%s:%d: %v", path, ln+1, err)
			}
			return Clause{Expr: n, Src: src, Tags: tags, Label: label}, nil
		}
		switch word {
		case "func":
			name := strings.TrimSpace(rest)
			if c, ok := out[name]; ok {
				cur = c // a later block for the same function adds clauses
			} else {
				cur = &Contract{Func: name, Loops: map[int]*LoopContract{}, Line: ln + 1}
				out[cur.Func] = cur
			}
			curLoop = nil
			curWithin = false
			lastClause = nil
		case "requires", "ensures", "assigns", "invariant", "decreases", "latch":
			if cur == nil {
				return nil, fmt.Errorf("%s:%d: clause outside func", path, ln+1)
			}
			var cls []Clause
			if word == "assigns" {
				for _, part := range splitTop(rest, ',') {
					c, err := mk(strings.TrimSpace(part))
					if err != nil {
						return nil, err
					}
					cls = append(cls, c)
				}
			} else {
				c, err := mk(rest)
				if err != nil {
					return nil, err
				}
				cls = []Clause{c}
			}
			if curWithin && curLoop != nil {
				for i := range cls {
					cls[i].Mixed = true
				}
			}
			switch word {
			case "requires":
				cur.Requires = append(cur.Requires, cls...)
				lastClause = &cur.Requires[len(cur.Requires)-1]
			case "ensures":
				cur.Ensures = append(cur.Ensures, cls...)
				lastClause = &cur.Ensures[len(cur.Ensures)-1]
			case "assigns":
				if curLoop != nil {
					curLoop.Assigns = append(curLoop.Assigns, cls...)
				} else {
					cur.Assigns = append(cur.Assigns, cls...)
				}
			case "invariant":
				if curLoop == nil {
					// function-level: holds at every loop head reached while verifying this
					// function (including loops of inlined callees), in the function's scope
					for i := range cls {
						cls[i].RootScope = true
					}
					cur.GlobalInvs = append(cur.GlobalInvs, cls...)
				} else {
					curLoop.Invariants = append(curLoop.Invariants, cls...)
				}
			case "decreases":
				if curLoop == nil {
					return nil, fmt.Errorf("%s:%d: decreases outside loop", path, ln+1)
				}
				curLoop.Decreases = append(curLoop.Decreases, cls...)
			case "latch":
				if curLoop == nil {
					return nil, fmt.Errorf("%s:%d: latch outside loop", path, ln+1)
				}
				curLoop.Latch = append(curLoop.Latch, cls...)
			}
		case "within":
			// within <callee> loop N:   -- clauses of this function on a loop of an inlined callee
			i := strings.LastIndex(rest, " loop ")
			if cur == nil || i < 0 {
				return nil, fmt.Errorf("%s:%d: bad within", path, ln+1)
			}
			n, err := strconv.Atoi(strings.TrimSuffix(strings.TrimSpace(rest[i+6:]), ":"))
			if err != nil {
				return nil, fmt.Errorf("%s:%d: bad loop ordinal", path, ln+1)
			}
			key := fmt.Sprintf("%s#%d", strings.TrimSpace(rest[:i]), n)
			if cur.Within == nil {
				cur.Within = map[string]*LoopContract{}
			}
			if cur.Within[key] == nil {
				cur.Within[key] = &LoopContract{}
			}
			curLoop = cur.Within[key]
			curWithin = true
		case "mark":
			i := strings.Index(rest, "=")
			if cur == nil || i < 0 {
				return nil, fmt.Errorf("%s:%d: bad mark", path, ln+1)
			}
			n, err := parseSpec(strings.TrimSpace(rest[i+1:]))
			if err != nil {
				return nil, fmt.Errorf("%s:%d: %v", path, ln+1, err)
			}
			cur.Marks = append(cur.Marks, Mark{Name: strings.TrimSpace(rest[:i]), Expr: n, Tags: tags})
		case "loop":
			curWithin = false
			if cur == nil {
				return nil, fmt.Errorf("%s:%d: loop outside func", path, ln+1)
			}
			n, err := strconv.Atoi(strings.TrimSuffix(strings.TrimSpace(rest), ":"))
			if err != nil {
				return nil, fmt.Errorf("%s:%d: bad loop ordinal", path, ln+1)
			}
			if lcx, ok := cur.Loops[n]; ok {
				curLoop = lcx
			} else {
				curLoop = &LoopContract{}
				cur.Loops[n] = curLoop
			}
		case "type-invariant":
			// type-invariant (*T): <expr over self>   -- required and ensured by every exported method of *T
			i := strings.Index(rest, ":")
			if i < 0 {
				return nil, fmt.Errorf("%s:%d: type-invariant needs ':'", path, ln+1)
			}
			c, err := mk(strings.TrimSpace(rest[i+1:]))
			if err != nil {
				return nil, err
			}
			typeInvariants = append(typeInvariants, typeInvariant{Recv: strings.TrimSpace(rest[:i]), Clause: c})
		case "let":
			i := strings.Index(rest, "=")
			if cur == nil || i < 0 {
				return nil, fmt.Errorf("%s:%d: bad let", path, ln+1)
			}
			n, err := parseSpec(strings.TrimSpace(rest[i+1:]))
			if err != nil {
				return nil, fmt.Errorf("%s:%d: %v", path, ln+1, err)
			}
			if cur.Lets == nil {
				cur.Lets = map[string]*Node{}
			}
			cur.Lets[strings.TrimSpace(rest[:i])] = n
		case "pure":
			cur.Pure = true
		case "trusted":
			cur.Trusted = true
		case "inline":
			cur.Inline = true
		case "only-for":
			cur.OnlyFor = append(cur.OnlyFor, strings.Fields(rest)...)
		default:
			return nil, fmt.Errorf("%s:%d: unknown clause %q", path, ln+1, word)
		}
		_ = lastClause
	}
	for _, c := range out {
		if len(c.Requires)+len(c.Ensures)+len(c.Assigns) == 0 && !c.Pure && !c.Trusted {
			c.Inline = true // loop annotations only
		}
	}
	return out, nil
}

func isTag(s string) bool {
	if s == "" {
		return false
	}
	for _, c := range s {
		if !(c >= 'A' && c <= 'Z' || c >= '0' && c <= '9' || c >= 'a' && c <= 'z' || c == '-' || c == '_') {
			return false
		}
	}
	return true
}

func splitWord(s string) (string, string) {
	i := strings.IndexAny(s, " \t")
	if i < 0 {
		return s, ""
	}
	return s[:i], strings.TrimSpace(s[i+1:])
}

func splitTop(s string, sep byte) []string {
	var out []string
	depth := 0
	start := 0
	for i := 0; i < len(s); i++ {
		switch s[i] {
		case '(', '[':
			depth++
		case ')', ']':
			depth--
		default:
			if s[i] == sep && depth == 0 {
				out = append(out, s[start:i])
				start = i + 1
			}
		}
	}
	out = append(out, s[start:])
	return out
}

func contractNames(m map[string]*Contract) []string {
	var out []string
	for k := range m {
		out = append(out, k)
	}
	sort.Strings(out)
	return out
}

// nodeText renders a parsed expression back to source form.
func nodeText(n *Node) string {
	switch n.Kind {
	case "num", "ident":
		return n.Name
	case "paren":
		return "(" + nodeText(n.Args[0]) + ")"
	case "unary":
		return n.Op + nodeText(n.Args[0])
	case "binary":
		return nodeText(n.Args[0]) + " " + n.Op + " " + nodeText(n.Args[1])
	case "sel":
		return nodeText(n.Args[0]) + "." + n.Name
	case "index":
		return nodeText(n.Args[0]) + "[" + nodeText(n.Args[1]) + "]"
	case "call":
		var as []string
		for _, a := range n.Args[1:] {
			as = append(as, nodeText(a))
		}
		return nodeText(n.Args[0]) + "(" + strings.Join(as, ", ") + ")"
	}
	return "?"
}
