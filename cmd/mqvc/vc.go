package main

// VC: the verification-condition script of one root function, plus the
// value/state types of the symbolic executor.

import (
	"fmt"
	"go/token"
	"go/types"
	"sort"
	"strings"

	"golang.org/x/tools/go/ssa"
)

type Val struct {
	T    types.Type
	L    []string // leaf terms, per flatten(T)
	Fn   []int    // func values: candidate closure ids (nil = unknown, 0 = nil func)
	Tags []int    // interfaces: candidate type tags (nil = unknown, 0 = nil interface)
	Map  *SymMap
	Iter *SymIter
	Tup  []*Val
	St   *State // state in which memory reachable from the value was produced (contract method calls)
	Alts map[int]string // interfaces: payload term per possible type tag (more precise than L[1])
}

type SymMap struct {
	id      int
	keys    []string // literal key terms
	keyVals []*Val
	vals    []*Val
	opaque  bool // unknown contents (e.g. package-level map)
	elemT   types.Type
	keyT    types.Type
}

type SymIter struct {
	m   *SymMap
	str *Val
}

type Closure struct {
	id    int
	fn    *ssa.Function
	binds []*Val
}

type State struct {
	heap  map[string]string
	wm    string
	ghost map[string]string
	// epoch: for each heap key the array and the watermark at the last point
	// where the key was havoced (absent: the initial array and wm0)
	epoch map[string][2]string
}

func (s *State) clone() *State {
	n := &State{heap: make(map[string]string, len(s.heap)), wm: s.wm, ghost: make(map[string]string, len(s.ghost)), epoch: make(map[string][2]string, len(s.epoch))}
	for k, v := range s.epoch {
		n.epoch[k] = v
	}
	for k, v := range s.heap {
		n.heap[k] = v
	}
	for k, v := range s.ghost {
		n.ghost[k] = v
	}
	return n
}

type Obligation struct {
	Name  string
	Kind  string
	Fn    string // function the site belongs to
	Reach string
	Goal  string
	Tags  []string
	Pos   token.Position
	Desc  string
	Index int // position in vc.items
}

type Item struct {
	Cmd string
	Ob  *Obligation
}

type VC struct {
	w        *World
	root     *ssa.Function
	items    []Item
	decls    []string // declarations that survive loop-trial rollbacks
	nframe   int
	nname    int
	closures []*Closure
	declared map[string]bool
	obSeen   map[string]int
	unsup    []string
	nmap     int
	assumes  int
	notes    []string
	// ghost stream arrays etc. are plain declared constants
	inlined map[string]bool // functions inlined somewhere in this VC
	used    map[string]bool // contracts used (callee names)
	trusted map[string]bool // extern models used
	specDepth int
	noOblige  int // >0: obligations are not recorded (peeled first evaluation of a loop header)
	termSorts map[string]string
	lastLatch map[string][]string
	noAssumeObs bool
	noDefine    int
	curLets     map[string]*Node
	defs        map[string]string
	storeLog    []storeRec
	logStores   bool
	allocLog    map[string]bool
	axioms      map[string][]*axiomRec
	instDone    map[string]int
	naxiom      int
	rootObjs    []rootObj
	taint       bool
	nsecret     int
	hyps        []func(at string)
	parents     map[string][]string // heap array -> arrays it is defined from
	axiomOf     map[string]*axiomRec
}

func newVC(w *World, root *ssa.Function) *VC {
	return &VC{w: w, root: root, declared: map[string]bool{}, obSeen: map[string]int{},
		inlined: map[string]bool{}, used: map[string]bool{}, trusted: map[string]bool{}, termSorts: map[string]string{}, lastLatch: map[string][]string{}, defs: map[string]string{}, allocLog: map[string]bool{}, axioms: map[string][]*axiomRec{}, instDone: map[string]int{}, parents: map[string][]string{}, axiomOf: map[string]*axiomRec{}}
}

func (vc *VC) cmd(s string) { vc.items = append(vc.items, Item{Cmd: s}) }

func (vc *VC) name(prefix string) string {
	vc.nname++
	return fmt.Sprintf("%s!%d", prefix, vc.nname)
}

// define introduces a named abbreviation for term (unless it is atomic).
func (vc *VC) define(prefix, srt, term string) string {
	if isAtomic(term) || vc.noDefine > 0 {
		return term
	}
	n := vc.name(prefix)
	vc.cmd(fmt.Sprintf("(define-fun %s () %s %s)", n, srt, term))
	vc.defs[n] = term
	if strings.HasPrefix(srt, "(Array") {
		vc.parents[n] = arrayTokens(term, prefix)
	}
	return n
}

func isAtomic(t string) bool {
	if isLit(t) {
		return true
	}
	return !strings.ContainsAny(t, "( ")
}

func (vc *VC) fresh(prefix, srt string) string {
	n := vc.name(prefix)
	vc.cmd(fmt.Sprintf("(declare-const %s %s)", n, srt))
	return n
}

func (vc *VC) assume(t string) {
	if t == tTrue {
		return
	}
	vc.assumes++
	vc.cmd("(assert " + t + ")")
}

func (vc *VC) unsupported(fr *Frame, what string) {
	msg := what
	if fr != nil {
		msg = fmt.Sprintf("%s in %s", what, shortFuncName(fr.fn.String()))
	}
	for _, u := range vc.unsup {
		if u == msg {
			return
		}
	}
	vc.unsup = append(vc.unsup, msg)
}

// arr returns the current array term for heap leaf key in state st.
func (vc *VC) arr(st *State, l Leaf) string {
	if n, ok := st.heap[l.Key]; ok {
		return n
	}
	n := l.Key + "_0"
	if !vc.declared[n] {
		vc.declared[n] = true
		vc.decls = append(vc.decls, fmt.Sprintf("(declare-const %s (Array Int %s))", n, l.Sort))
	}
	return n
}

func (vc *VC) logStore(key, addr, count string) {
	if vc.logStores {
		vc.storeLog = append(vc.storeLog, storeRec{key, addr, count})
	}
}

func (vc *VC) setArr(st *State, l Leaf, term string) {
	st.heap[l.Key] = vc.define(l.Key, "(Array Int "+l.Sort+")", term)
}

var leafByKey = map[string]Leaf{}

func rememberLeaf(l Leaf) { leafByKey[l.Key] = l }

// site ordinals: stable name of an obligation site within its function.
type siteKey struct {
	ins  ssa.Instruction
	kind string
	sub  int
}

type World struct {
	prog      *ssa.Program
	pkg       *ssa.Package
	fset      *token.FileSet
	contracts map[string]*Contract
	typeIDs   map[string]int
	typeByID  map[int]types.Type
	siteOrd   map[siteKey]int
	siteCnt   map[string]int
	globals   map[*ssa.Global]int64
	strLits   map[string]int64
	staticTop int64
	funcs     map[string]*ssa.Function // short name -> function
	modsets   map[*ssa.Function]map[string]bool
	loopsOf   map[*ssa.Function]map[*ssa.BasicBlock]*Loop
	globalMap map[*ssa.Global]*SymMap
	arrInit   map[*ssa.Global][]string // constant element terms of package-level arrays
	strInit   map[*ssa.Global]string
	rpoCache  map[*ssa.Function][]*ssa.BasicBlock
	prop      string
	forceInline map[string]bool
	secretRecv  string
	taintRoots  map[string]bool
	secrets   []string // byte-slice lvalues of the root receiver whose contents are secret (C18)
	invariantMethods []string
	propForInv string
	unroll    int // >0: loops are unrolled this many times instead of cut (replay aid only)
}

const staticEnd = 1 << 24

func (w *World) typeID(t types.Type) int {
	k := typeStr(t)
	if id, ok := w.typeIDs[k]; ok {
		return id
	}
	id := len(w.typeIDs) + 1
	w.typeIDs[k] = id
	w.typeByID[id] = t
	return id
}

func (w *World) globalAddr(g *ssa.Global) int64 {
	if a, ok := w.globals[g]; ok {
		return a
	}
	a := w.staticTop
	w.staticTop += int64(allocSlots(elemOf(g.Type()))) + 1
	w.globals[g] = a
	return a
}

func (w *World) strLitAddr(s string) int64 {
	if a, ok := w.strLits[s]; ok {
		return a
	}
	a := w.staticTop
	w.staticTop += int64(len(s)) + 1
	w.strLits[s] = a
	if w.staticTop >= staticEnd {
		panic("static area exhausted")
	}
	return a
}

func (vc *VC) oblige(fr *Frame, ins ssa.Instruction, kind string, sub int, goal string, desc string) {
	reach := fr.reach
	if goal == tTrue || reach == tFalse || vc.specDepth > 0 || vc.noOblige > 0 {
		return
	}
	w := vc.w
	fname := shortFuncName(fr.fn.String())
	k := siteKey{ins, kind, sub}
	ord, ok := w.siteOrd[k]
	if !ok {
		ck := fname + "/" + kind
		ord = w.siteCnt[ck]
		w.siteCnt[ck] = ord + 1
		w.siteOrd[k] = ord
	}
	name := fmt.Sprintf("%s/%s/%d", fname, kind, ord)
	vc.obSeen[name]++
	if n := vc.obSeen[name]; n > 1 {
		name = fmt.Sprintf("%s#%d", name, n)
	}
	ob := &Obligation{Name: name, Kind: kind, Fn: fname, Reach: reach, Goal: goal, Desc: desc}
	if ins != nil && ins.Pos().IsValid() {
		ob.Pos = w.fset.Position(ins.Pos())
	}
	ob.Index = len(vc.items)
	vc.items = append(vc.items, Item{Ob: ob})
}

// obligeNamed adds an obligation with an explicit name (contracts).
func (vc *VC) obligeNamed(fr *Frame, name, kind, goal string, tags []string, desc string) {
	reach := fr.reach
	if reach == tFalse || vc.specDepth > 0 || vc.noOblige > 0 {
		return
	}
	vc.obSeen[name]++
	if n := vc.obSeen[name]; n > 1 {
		name = fmt.Sprintf("%s#%d", name, n)
	}
	ob := &Obligation{Name: name, Kind: kind, Fn: shortFuncName(fr.fn.String()), Reach: reach, Goal: goal, Tags: tags, Desc: desc}
	ob.Index = len(vc.items)
	vc.items = append(vc.items, Item{Ob: ob})
}

func (vc *VC) obligations() []*Obligation {
	var out []*Obligation
	for _, it := range vc.items {
		if it.Ob != nil {
			out = append(out, it.Ob)
		}
	}
	return out
}

const prelude = `(set-option :produce-models true)
(set-logic ALL)
`

// script renders the full incremental script: each obligation is checked
// under push/pop and then assumed.
func (vc *VC) script(relaxed bool) string { return vc.scriptShard(relaxed, 0, 1) }

// scriptShard renders the incremental script in which only every n-th
// obligation (those with index %% n == k) is checked; all are assumed.
func (vc *VC) scriptShard(relaxed bool, k, n int) string { return vc.scriptShardOnly(relaxed, k, n, nil) }

// scriptShardOnly: as scriptShard, but only obligations named in only (if non-nil) are checked.
func (vc *VC) scriptShardOnly(relaxed bool, k, n int, only map[string]bool) string {
	obIndex := 0
	var b strings.Builder
	b.WriteString(prelude)
	for _, d := range vc.decls {
		b.WriteString(d)
		b.WriteString("\n")
	}
	for _, it := range vc.items {
		if it.Ob == nil {
			if relaxed && isQuantified(it.Cmd) {
				continue
			}
			b.WriteString(it.Cmd)
			b.WriteString("\n")
			continue
		}
		ob := it.Ob
		if only != nil && !only[ob.Name] {
			fmt.Fprintf(&b, "(assert %s)\n", imp(ob.Reach, ob.Goal))
			continue
		}
		if obIndex%n == k {
			fmt.Fprintf(&b, "(push 1)\n(assert %s)\n(echo \"@OB %s\")\n(check-sat)\n(pop 1)\n", and(ob.Reach, not(ob.Goal)), ob.Name)
		}
		obIndex++
		fmt.Fprintf(&b, "(assert %s)\n", imp(ob.Reach, ob.Goal))
	}
	b.WriteString("(echo \"@VACUITY\")\n(check-sat)\n")
	return b.String()
}

// standalone renders a self-contained query for one obligation.
func (vc *VC) standalone(target *Obligation, relaxed bool, extra []string) string {
	var b strings.Builder
	b.WriteString(prelude)
	for _, d := range vc.decls {
		b.WriteString(d)
		b.WriteString("\n")
	}
	for _, it := range vc.items {
		if it.Ob == nil {
			if relaxed && isQuantified(it.Cmd) {
				continue
			}
			b.WriteString(it.Cmd)
			b.WriteString("\n")
			continue
		}
		ob := it.Ob
		if ob == target {
			fmt.Fprintf(&b, "(assert %s)\n", and(ob.Reach, not(ob.Goal)))
			break
		}
		if !vc.noAssumeObs {
			fmt.Fprintf(&b, "(assert %s)\n", imp(ob.Reach, ob.Goal))
		}
	}
	for _, e := range extra {
		b.WriteString(e)
		b.WriteString("\n")
	}
	b.WriteString("(check-sat)\n")
	return b.String()
}

func sortedKeys(m map[string]bool) []string {
	var out []string
	for k := range m {
		out = append(out, k)
	}
	sort.Strings(out)
	return out
}

// staticFrame states that package-level variables (static area) are not
// changed by a havoc: no function of the package stores to a global (checked
// by the write-freedom scan, trusted base item 5).
func (vc *VC) staticFrame(key, nw, old string) {
	vc.addAxiomArr(key, nw, old, fmt.Sprintf("(forall ((a Int)) (! (=> (< a %d) (= (select %s a) (select %s a))) :pattern ((select %s a))))", staticEnd, nw, old, nw),
		func(idx string) (string, []string) {
			return imp(lt(idx, intLit(staticEnd)), eq(sel(nw, idx), sel(old, idx))), nil
		})
}

func isQuantified(cmd string) bool {
	return strings.Contains(cmd, "(forall ") || strings.Contains(cmd, "(exists ")
}

// ---- quantified heap axioms and their instantiation at read indices ----

type axiomRec struct {
	id   int
	born int // index in vc.items
	// inst returns the instance of the axiom at index idx and the indices at
	// which the instance itself reads the same heap key
	inst func(idx string) (string, []string)
	old  string
}

// addAxiom emits a quantified fact defining heap array nw from array old
// (used by the full solver pass) and registers its instantiation function:
// every later read of nw, or of an array derived from it, at a ground index
// gets the corresponding quantifier-free instance, which is what the first
// (quantifier-free) pass works with.
func (vc *VC) addAxiomArr(key, nw, old, quantified string, inst func(idx string) (string, []string)) {
	vc.assume(quantified)
	vc.naxiom++
	a := &axiomRec{id: vc.naxiom, born: len(vc.items), inst: inst, old: old}
	vc.axioms[key] = append(vc.axioms[key], a)
	vc.axiomOf[nw] = a
	vc.parents[nw] = []string{old}
}

func (vc *VC) dropAxiomsFrom(itemIndex int) {
	for k, as := range vc.axioms {
		n := 0
		for _, a := range as {
			if a.born <= itemIndex {
				as[n] = a
				n++
			}
		}
		vc.axioms[k] = as[:n]
	}
	for k, a := range vc.axiomOf {
		if a.born > itemIndex {
			delete(vc.axiomOf, k)
		}
	}
	for k, at := range vc.instDone {
		if at >= itemIndex {
			delete(vc.instDone, k)
		}
	}
}

// read returns (select arr idx) for a heap leaf and instantiates the
// axioms in the history of that array at idx.
func (vc *VC) read(st *State, l Leaf, idx string) string {
	arr := vc.arr(st, l)
	vc.instantiate(arr, idx, 0)
	return sel(arr, idx)
}

func (vc *VC) instantiate(arr, idx string, depth int) {
	if depth > 3 || vc.noDefine > 0 || strings.Contains(idx, "q_") {
		return
	}
	seen := map[string]bool{}
	stack := []string{arr}
	for len(stack) > 0 {
		x := stack[len(stack)-1]
		stack = stack[:len(stack)-1]
		if seen[x] {
			continue
		}
		seen[x] = true
		if a := vc.axiomOf[x]; a != nil {
			k := fmt.Sprintf("%d|%s", a.id, idx)
			if _, ok := vc.instDone[k]; !ok {
				vc.instDone[k] = len(vc.items)
				t, more := a.inst(idx)
				vc.cmd("(assert " + t + ")")
				for _, m := range more {
					vc.instantiate(a.old, m, depth+1)
				}
			}
		}
		stack = append(stack, vc.parents[x]...)
	}
}

func arrayTokens(term, prefix string) []string {
	var out []string
	for _, tok := range strings.FieldsFunc(term, func(r rune) bool { return r == ' ' || r == '(' || r == ')' }) {
		if strings.HasPrefix(tok, prefix+"!") || tok == prefix+"_0" {
			out = append(out, tok)
		}
	}
	return out
}

// methodOf finds the method `name` in the method set of t (or *t).
func (w *World) methodOf(t types.Type, name string) *ssa.Function {
	for _, tt := range []types.Type{t, types.NewPointer(t)} {
		if sel := w.prog.MethodSets.MethodSet(tt).Lookup(w.pkg.Pkg, name); sel != nil {
			if _, ok := tt.Underlying().(*types.Pointer); ok || tt == t {
				if f := w.prog.MethodValue(sel); f != nil && (tt == t || !isPtrT(t)) {
					return f
				}
			}
		}
	}
	return nil
}

// sumWidth builds the application sum_<kind>(H, base, k) and emits its unfolding at k.
func (vc *VC) sumWidth(kind string, st *State, x *Val, k string) string {
	var lf Leaf
	var elemW func(arr, base, j string) string
	switch kind {
	case "upwidth": // []UserProp: [2]string, two slots per element; width = key empty ? 0 : 5 + len(key) + len(val)
		lf = Leaf{Sort: "Int", Key: "H_string.l"}
		elemW = func(arr, base, j string) string {
			kl := sel(arr, add(base, mul(j, "2")))
			vl := sel(arr, add(add(base, mul(j, "2")), "1"))
			return ite(eq(kl, "0"), "0", add(add("5", kl), vl))
		}
	case "sidwidth": // []uint32: value 0 ? 0 : 1 + width of the variable byte integer
		lf = Leaf{Sort: "(_ BitVec 32)", Key: "H_uint32"}
		elemW = func(arr, base, j string) string {
			v := sx("bv2nat", sel(arr, add(base, j)))
			w := ite(lt(v, "128"), "1", ite(lt(v, "16384"), "2", ite(lt(v, "2097152"), "3", ite(lt(v, "268435456"), "4", "5"))))
			return ite(eq(v, "0"), "0", add("1", w))
		}
	case "tfwidth": // []TopicFilter: filter (bindata) + options, two slots; width = 3 + len(filter)
		lf = Leaf{Sort: "Int", Key: "H_mq.bindata.l"}
		elemW = func(arr, base, j string) string { return add("3", sel(arr, add(base, mul(j, "2")))) }
	case "wswidth": // []wstring: one slot; width = 2 + len
		lf = Leaf{Sort: "Int", Key: "H_mq.bindata.l"}
		elemW = func(arr, base, j string) string { return add("2", sel(arr, add(base, j))) }
	}
	rememberLeaf(lf)
	arr := vc.arr(st, lf)
	fn := "sum_" + kind
	if !vc.declared[fn] {
		vc.declared[fn] = true
		vc.decls = append(vc.decls, fmt.Sprintf("(declare-fun %s ((Array Int %s) Int Int) Int)", fn, lf.Sort))
	}
	app := func(kk string) string { return fmt.Sprintf("(%s %s %s %s)", fn, arr, x.L[0], kk) }
	t := app(k)
	key := "unfold|" + t
	if _, done := vc.instDone[key]; !done && vc.noDefine == 0 && !strings.Contains(k, "q_") {
		vc.instDone[key] = len(vc.items)
		km1 := sub(k, "1")
		vc.cmd("(assert " + eq(t, ite(le(k, "0"), "0", add(app(km1), elemW(arr, x.L[0], km1)))) + ")")
		vc.cmd("(assert " + le("0", t) + ")")
	}
	return t
}
