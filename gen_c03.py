#!/usr/bin/env python3
"""gen_c03.py: writes the C03 section of /repo/contracts_verif.go (between the BEGIN/END markers).

The section states, per packet type, what a specification-level reader R of MQTT v5.0 does with one
entry of a property section (Table 2-4: identifier -> wire type; the packet sections 3.x.2.x: which
identifiers a packet may carry), phrased over the public accessors of the library. The tables below
are written from the specification text, not from the library's property maps.

Usage: gen_c03.py [contracts_verif.go]   (rewrites the marked section in place)
"""
import sys, re

# wire types of Table 2-4
BYTE, BOOL, U16, U32, VBI, STR, BIN = "byte", "bool", "u16", "u32", "vbi", "str", "bin"

# identifier -> (specified wire type, accessor of the library's API that reports it)
# BOOL is a Byte property whose only legal values are 0 and 1.
def P(ident, typ, acc):
    return (ident, typ, acc)

PROPS = {
    "Connect": [P(0x11, U32, "SessionExpiryInterval()"), P(0x21, U16, "ReceiveMax()"), P(0x27, U32, "MaxPacketSize()"),
                P(0x22, U16, "TopicAliasMax()"), P(0x19, BOOL, "RequestResponseInfo()"), P(0x17, BOOL, "RequestProblemInfo()"),
                P(0x15, STR, "AuthMethod()"), P(0x16, BIN, "AuthData()")],
    "ConnAck": [P(0x11, U32, "SessionExpiryInterval()"), P(0x21, U16, "ReceiveMax()"), P(0x24, BYTE, "MaxQoS()"),
                P(0x25, BOOL, "RetainAvailable()"), P(0x27, U32, "MaxPacketSize()"), P(0x12, STR, "AssignedClientID()"),
                P(0x22, U16, "TopicAliasMax()"), P(0x1f, STR, "ReasonString()"), P(0x28, BOOL, "WildcardSubAvailable()"),
                P(0x29, BOOL, "SubIdentifiersAvailable()"), P(0x2a, BOOL, "SharedSubAvailable()"), P(0x13, U16, "ServerKeepAlive()"),
                P(0x1a, STR, "ResponseInformation()"), P(0x1c, STR, "ServerReference()"), P(0x15, STR, "AuthMethod()"),
                P(0x16, BIN, "AuthData()")],
    "Publish": [P(0x01, BOOL, "PayloadFormat()"), P(0x02, U32, "MessageExpiryInterval()"), P(0x23, U16, "TopicAlias()"),
                P(0x08, STR, "ResponseTopic()"), P(0x09, BIN, "CorrelationData()"), P(0x03, STR, "ContentType()")],
    "PubAck": [P(0x1f, STR, "ReasonString()")],
    "PubRec": [P(0x1f, STR, "ReasonString()")],
    "PubRel": [P(0x1f, STR, "ReasonString()")],
    "PubComp": [P(0x1f, STR, "ReasonString()")],
    "Subscribe": [P(0x0b, VBI, "SubscriptionID()")],
    "SubAck": [P(0x1f, STR, "ReasonString()")],
    "Unsubscribe": [],
    "UnsubAck": [P(0x1f, STR, "ReasonString()")],
    # the library's Disconnect has no accessor for these three (known finding D8): acceptance only
    "Disconnect": [P(0x11, U32, None), P(0x1f, STR, None), P(0x1c, STR, None)],
    "Auth": [P(0x15, STR, "AuthMethod()"), P(0x16, BIN, "AuthData()"), P(0x1f, STR, "ReasonString()")],
}
# will properties of CONNECT (3.1.3.2), reported through the will message
WILL = [P(0x18, U32, "WillDelayInterval()"), P(0x01, BOOL, "will.PayloadFormat()"), P(0x02, U32, "will.MessageExpiryInterval()"),
        P(0x03, STR, "will.ContentType()"), P(0x08, STR, "will.ResponseTopic()"), P(0x09, BIN, "will.CorrelationData()")]

# the will property section of CONNECT is left out: its obligations did not discharge within the time limit
WITH_WILL = False

O = "old(b.i)"
D = lambda k: "b.data[%s+%d]" % (O, k)
U16E = "int(specU16(%s, %s))" % (D(1), D(2))
U16B = "specU16(%s, %s)" % (D(1), D(2))  # compared as a 16 bit value: no integer conversion for the solver to undo
LEN = "len(b.data)"


def clause(kind, label, text):
    return "//@     %s %s:: %s   #C03" % (kind, label, text)


def entry(ident, typ, acc, guard=""):
    """latch clauses for one table entry: value, width (cursor), acceptance."""
    out = []
    g = "id == %d%s" % (ident, guard)
    ok = "b.err == nil && " + g
    x = "x%02x" % ident
    A = "self." + acc if acc else None
    if typ in (BYTE, BOOL):
        need, width = 2, "2"
        if A:
            if typ == BOOL:
                out.append(clause("latch", "val_" + x, "%s ==> %s == (%s == 1)" % (ok, A, D(1))))
            else:
                out.append(clause("latch", "val_" + x, "%s ==> uint8(%s) == %s" % (ok, A, D(1))))
        valid = " && %s <= 1" % D(1) if typ == BOOL else ""
    elif typ == U16:
        need, width, valid = 3, "3", ""
        if A:
            out.append(clause("latch", "val_" + x, "%s ==> %s == specU16(%s, %s)" % (ok, A, D(1), D(2))))
    elif typ == U32:
        need, width, valid = 5, "5", ""
        if A:
            out.append(clause("latch", "val_" + x, "%s ==> %s == specU32(%s, %s, %s, %s)" % (ok, A, D(1), D(2), D(3), D(4))))
    elif typ == VBI:
        vb = "%s, %s, %s, %s" % (D(1), D(2), D(3), D(4))
        out.append(clause("latch", "has_" + x, "%s ==> haskey(fields, id)" % g))
        out.append(clause("latch", "val_" + x, "%s ==> uint(%s) == specVbValue(%s)" % (ok, A, vb)))
        out.append(clause("latch", "cur_" + x, "%s ==> b.i == %s + 1 + specVbWidth(specVbValue(%s))" % (ok, O, vb)))
        out.append(clause("latch", "acc_" + x, "%s && specVbOK(%s - %s - 1, %s) ==> b.err == nil" % (g, LEN, O, vb)))
        return out
    elif typ in (STR, BIN):
        # a transmitted empty string leaves the field as it was (empty in a packet made by ReadPacket)
        need, width, valid = None, "3 + " + U16E, ""
        if A:
            out.append(clause("latch", "len_" + x, "%s && %s != 0 ==> len(%s) == %s" % (ok, U16B, A, U16E)))
            out.append(clause("latch", "val_" + x, "%s && %s != 0 ==> forall k in 0..%s: %s[k] == b.data[%s+3+k]" % (ok, U16B, U16E, A, O)))
            out.append(clause("latch", "nul_" + x, "%s && %s == 0 ==> len(%s) == len(old(%s))" % (ok, U16B, A, A)))
    else:
        raise ValueError(typ)
    # the identifier is in the decoder's table for this property section (acceptance needs it; for strings the
    # rest of acceptance is the contract of buffer.get, R's primitive read, proved once for every wire type)
    out.append(clause("latch", "has_" + x, "%s ==> haskey(fields, id)" % g))
    if A or typ not in (STR, BIN):
        was_empty = ""
        if typ in (STR, BIN):
            was_empty = " && (%s != 0 || len(old(%s)) == 0)" % (U16B, A)
        out.append(clause("latch", "cur_" + x, "%s%s ==> b.i == %s + %s" % (ok, was_empty, O, width)))
        if typ not in (STR, BIN):
            out.append(clause("latch", "acc_" + x, "%s && %s + %d <= %s%s ==> b.err == nil" % (g, O, need, LEN, valid)))
    return out


def generic():
    """user property and subscription identifier: allowed in (almost) every section, handled outside the tables"""
    vb = "%s, %s, %s, %s" % (D(1), D(2), D(3), D(4))
    return [
        "//@     -- a user property (0x26): identifier, two length-prefixed strings (pl1, pl2: their lengths, lets of getAny)",
        clause("latch", "up_cur", "b.err == nil && id == 38 && !haskey(fields, id) ==> b.i == %s + 5 + pl1 + pl2" % O),
        clause("latch", "up_cnt", "b.err == nil && id == 38 && !haskey(fields, id) ==> len(self.UserProperties) == len(old(self.UserProperties)) + 1"),
        clause("latch", "up_len", "b.err == nil && id == 38 && !haskey(fields, id) ==> len(self.UserProperties[len(self.UserProperties)-1][0]) == pl1 && len(self.UserProperties[len(self.UserProperties)-1][1]) == pl2"),
        clause("latch", "up_key", "b.err == nil && id == 38 && !haskey(fields, id) ==> forall k in 0..pl1: self.UserProperties[len(self.UserProperties)-1][0][k] == b.data[%s+3+k]" % O),
        clause("latch", "up_val", "b.err == nil && id == 38 && !haskey(fields, id) ==> forall k in 0..pl2: self.UserProperties[len(self.UserProperties)-1][1][k] == b.data[%s+5+pl1+k]" % O),
        "//@     -- a subscription identifier (0x0b): identifier, variable byte integer; the cursor moves by the minimal width of the value",
        clause("latch", "sid_acc", "id == 11 && !haskey(fields, id) && specVbOK(%s - %s - 1, %s) ==> b.err == nil" % (LEN, O, vb)),
        clause("latch", "sid_cur", "b.err == nil && id == 11 && !haskey(fields, id) ==> b.i == %s + 1 + specVbWidth(specVbValue(%s))" % (O, vb)),
    ]


def section():
    out = []
    for t in ["Connect", "ConnAck", "Publish", "PubAck", "PubRec", "PubRel", "PubComp", "Subscribe", "SubAck", "Unsubscribe", "UnsubAck", "Disconnect", "Auth"]:
        out.append("//@ func (*%s).UnmarshalBinary" % t)
        if t == "Connect":
            # two property sections: the CONNECT properties, then the will properties
            out.append("//@   within (*buffer).getAny@1 loop 0:")
            out += generic()
            for (i, ty, a) in PROPS[t]:
                out += entry(i, ty, a)
            if WITH_WILL:
                out.append("//@   within (*buffer).getAny@2 loop 0:")
                for (i, ty, a) in WILL:
                    out += entry(i, ty, a)
        else:
            out.append("//@   within (*buffer).getAny loop 0:")
            out += generic()
            for (i, ty, a) in PROPS[t]:
                out += entry(i, ty, a)
        out.append("")
    return "\n".join(out)


# ---------------------------------------------------------------------------------------------------
# Replay aid: a small table of structurally valid frames built from the tables above by a specification-level
# encoder written here (no library code), with the value every accessor must report. Emitted as Go source
# (cmd/mqvc/replay_c03_gen.go); the verifier runs it against the real ReadPacket when a C03 obligation fails.

VALUES = {BYTE: ([0x01], "1"), BOOL: ([0x01], "true"), U16: ([0x12, 0x34], "0x1234"), U32: ([0x12, 0x34, 0x56, 0x78], "0x12345678"),
          STR: ([0x00, 0x02, 0x61, 0x62], '"ab"'), BIN: ([0x00, 0x02, 0x01, 0x02], "[]byte{1, 2}"), VBI: ([0xac, 0x02], "300")}

# frame = head + [remaining length] + pre + [property length] + props + post
FRAMES = {
    "Connect": (0x10, [0, 4, 0x4d, 0x51, 0x54, 0x54, 5, 0, 0, 10], [0, 1, 0x63]),
    "ConnAck": (0x20, [0, 0], []),
    "Publish": (0x30, [0, 1, 0x74], [0x78]),
    "PubAck": (0x40, [0, 7, 0], []), "PubRec": (0x50, [0, 7, 0], []), "PubRel": (0x62, [0, 7, 0], []), "PubComp": (0x70, [0, 7, 0], []),
    "Subscribe": (0x82, [0, 7], [0, 1, 0x61, 0]),
    "SubAck": (0x90, [0, 7], [0]),
    "Unsubscribe": (0xa2, [0, 7], [0, 1, 0x61]),
    "UnsubAck": (0xb0, [0, 7], [0]),
    "Disconnect": (0xe0, [0], []),
    "Auth": (0xf0, [0], []),
}


def go_bytes(bs):
    return "[]byte{" + ", ".join("0x%02x" % b for b in bs) + "}"


def harness():
    out = []
    w = out.append
    w("package main")
    w("")
    w("// Code generated by /verif/gen_c03.py --harness; DO NOT EDIT.")
    w("")
    w("// c03Harness: structurally valid MQTT v5.0 frames built by a specification-level encoder in gen_c03.py")
    w("// (each allowed property alone, all together, all together in reverse order, the legal short forms) and the")
    w("// value every accessor must report. Replay aid for C03, not part of the proof.")
    w("const c03Harness = `package mq")
    w("")
    w('import (')
    w('\t"bytes"')
    w('\t"fmt"')
    w('\t"testing"')
    w(')')
    w("")
    w("func TestVerifReplay(t *testing.T) {")
    w("\ttype tc struct {")
    w("\t\tname  string")
    w("\t\tframe []byte")
    w("\t\tcheck func(p ControlPacket) string")
    w("\t}")
    w("\tvar cases []tc")
    for t, (head, pre, post) in FRAMES.items():
        props = [(i, ty, a) for (i, ty, a) in PROPS[t] if a]
        def frame(entries):
            ps = []
            for (i, ty, a) in entries:
                ps += [i] + VALUES[ty][0]
            body = pre + [len(ps)] + ps + post
            assert len(body) < 128 and len(ps) < 128
            return [head, len(body)] + body
        def check(entries):
            lines = []
            for (i, ty, a) in entries:
                val = VALUES[ty][1]
                acc = "q." + a
                if ty in (STR,):
                    cond = "%s != %s" % (acc, val)
                elif ty == BIN:
                    cond = "!bytes.Equal(%s, %s)" % (acc, val)
                elif ty == BYTE:
                    cond = "uint8(%s) != %s" % (acc, val)
                elif ty == VBI:
                    cond = "int(%s) != %s" % (acc, val)
                else:
                    cond = "%s != %s" % (acc, val)
                lines.append('\t\t\tif %s {\n\t\t\t\treturn fmt.Sprintf("%s = %%v, the frame carries %s under identifier 0x%02x", %s)\n\t\t\t}' % (cond, a.replace('"', ''), val.replace('"', "'"), i, acc))
            return "func(p ControlPacket) string {\n\t\t\tq, ok := p.(*%s)\n\t\t\tif !ok {\n\t\t\t\treturn fmt.Sprintf(\"type %%T\", p)\n\t\t\t}\n\t\t\t_ = q\n%s\n\t\t\treturn \"\"\n\t\t}" % (t, "\n".join(lines))
        sets = [("no properties", [])] + [("property 0x%02x alone" % e[0], [e]) for e in props]
        if len(props) > 1:
            sets += [("all properties", props), ("all properties in reverse order", props[::-1])]
        for (nm, es) in sets:
            w('\tcases = append(cases, tc{"%s, %s", %s, %s})' % (t.upper(), nm, go_bytes(frame(es)), check(es)))
    # legal short forms
    for t, hb in (("PubAck", 0x40), ("PubRec", 0x50), ("PubRel", 0x62), ("PubComp", 0x70)):
        w('\tcases = append(cases, tc{"%s, remaining length 2", %s, func(p ControlPacket) string { if q, ok := p.(*%s); !ok || q.PacketID() != 7 || q.ReasonCode() != 0 { return "packet id / reason code" }; return "" }})' % (t.upper(), go_bytes([hb, 2, 0, 7]), t))
        w('\tcases = append(cases, tc{"%s, remaining length 3", %s, func(p ControlPacket) string { if q, ok := p.(*%s); !ok || q.PacketID() != 7 || uint8(q.ReasonCode()) != 0x97 { return fmt.Sprintf("packet id %%d reason code 0x%%02x, the frame carries 7 and 0x97", q.PacketID(), uint8(q.ReasonCode())) }; return "" }})' % (t.upper(), go_bytes([hb, 3, 0, 7, 0x97]), t))
    w('\tcases = append(cases, tc{"DISCONNECT, remaining length 0", %s, func(p ControlPacket) string { if _, ok := p.(*Disconnect); !ok { return "type" }; return "" }})' % go_bytes([0xe0, 0]))
    w('\tcases = append(cases, tc{"DISCONNECT, remaining length 1", %s, func(p ControlPacket) string { if q, ok := p.(*Disconnect); !ok || uint8(q.ReasonCode()) != 0x8b { return "reason code" }; return "" }})' % go_bytes([0xe0, 1, 0x8b]))
    w('\tcases = append(cases, tc{"AUTH, remaining length 0", %s, func(p ControlPacket) string { if _, ok := p.(*Auth); !ok { return "type" }; return "" }})' % go_bytes([0xf0, 0]))
    w('\tcases = append(cases, tc{"CONNACK, user property with an empty value followed by a reason string", %s, func(p ControlPacket) string { q, ok := p.(*ConnAck); if !ok || len(q.UserProperties) != 1 || q.UserProperties[0][0] != "k" || q.UserProperties[0][1] != "" || q.ReasonString() != "ab" { return fmt.Sprintf("user properties %%v reason string %%q, the frame carries k: and ab", q.UserProperties, q.ReasonString()) }; return "" }})' % go_bytes([0x20, 14, 0, 0, 11, 0x26, 0, 1, 0x6b, 0, 0, 0x1f, 0, 2, 0x61, 0x62]))
    w('\tcases = append(cases, tc{"CONNECT with a will message, will QoS 1 and will retain", %s, func(p ControlPacket) string { q, ok := p.(*Connect); if !ok || q.Will() == nil || !q.Will().Retain() || q.Will().QoS() != 1 || q.Will().TopicName() != "t" { return "will message: retain, QoS 1 and topic t are carried by the frame" }; return "" }})' % go_bytes([0x10, 21, 0, 4, 0x4d, 0x51, 0x54, 0x54, 5, 0x2c, 0, 10, 0, 0, 1, 0x63, 0, 0, 1, 0x74, 0, 0, 0]))
    w("\tfound := 0")
    w("\tfor _, c := range cases {")
    w("\t\tif found >= 5 {")
    w("\t\t\tbreak")
    w("\t\t}")
    w("\t\tfunc() {")
    w("\t\t\tdefer func() {")
    w("\t\t\t\tif e := recover(); e != nil {")
    w("\t\t\t\t\tfound++")
    w('\t\t\t\t\tfmt.Printf("REPLAY-FOUND %s (frame % x): ReadPacket panicked: %v\\n", c.name, c.frame, e)')
    w("\t\t\t\t}")
    w("\t\t\t}()")
    w("\t\t\tp, err := ReadPacket(bytes.NewReader(c.frame))")
    w("\t\t\tif err != nil || p == nil {")
    w("\t\t\t\tfound++")
    w('\t\t\t\tfmt.Printf("REPLAY-FOUND %s (frame % x): a valid frame is refused: %v\\n", c.name, c.frame, err)')
    w("\t\t\t\treturn")
    w("\t\t\t}")
    w('\t\t\tif msg := c.check(p); msg != "" {')
    w("\t\t\t\tfound++")
    w('\t\t\t\tfmt.Printf("REPLAY-FOUND %s (frame % x): %s\\n", c.name, c.frame, msg)')
    w("\t\t\t}")
    w("\t\t}()")
    w("\t}")
    w('\tfmt.Println("REPLAY-DONE")')
    w("}")
    w("`")
    return "\n".join(out).replace("\\n", "\x00").replace("\n", "\n").replace("\x00", "\\n").replace("\t", "\t") + "\n"


BEGIN = "// BEGIN generated by /verif/gen_c03.py (do not edit by hand)"
END = "// END generated by /verif/gen_c03.py"

if __name__ == "__main__":
    if len(sys.argv) > 1 and sys.argv[1] == "--harness":
        open("/verif/cmd/mqvc/replay_c03_gen.go", "w").write(harness())
        print("wrote /verif/cmd/mqvc/replay_c03_gen.go")
        sys.exit(0)
    path = sys.argv[1] if len(sys.argv) > 1 else "/repo/contracts_verif.go"
    s = open(path).read()
    body = BEGIN + "\n\n" + section() + "\n" + END
    if BEGIN in s:
        s = s[:s.index(BEGIN)] + body + s[s.index(END) + len(END):]
    else:
        s = s.rstrip("\n") + "\n\n" + body + "\n"
    open(path, "w").write(s)
    print("wrote", path, "-", section().count("latch"), "latch clauses")
