#!/usr/bin/env python3
"""gen_c03.py: writes the C03 section of /repo/contracts_verif.go (between the BEGIN/END markers).

The section states, per packet type, what a specification-level reader R of MQTT v5.0 does with one
entry of a property section (Table 2-4: identifier -> wire type; the packet sections 3.x.2.x: which
identifiers a packet may carry), phrased over the public accessors of the library. The tables below
are written from the specification text, not from the library's property maps.

Usage: gen_c03.py [contracts_verif.go]   (rewrites the marked section in place)
"""
import sys, re

# wire types of Table 2-4
BYTE, BOOL, U16, U32, VBI, STR, BIN = "byte", "bool", "u16", "u32", "vbi", "str", "bin"

# identifier -> (specified wire type, accessor of the library's API that reports it)
# BOOL is a Byte property whose only legal values are 0 and 1.
def P(ident, typ, acc):
    return (ident, typ, acc)

PROPS = {
    "Connect": [P(0x11, U32, "SessionExpiryInterval()"), P(0x21, U16, "ReceiveMax()"), P(0x27, U32, "MaxPacketSize()"),
                P(0x22, U16, "TopicAliasMax()"), P(0x19, BOOL, "RequestResponseInfo()"), P(0x17, BOOL, "RequestProblemInfo()"),
                P(0x15, STR, "AuthMethod()"), P(0x16, BIN, "AuthData()")],
    "ConnAck": [P(0x11, U32, "SessionExpiryInterval()"), P(0x21, U16, "ReceiveMax()"), P(0x24, BYTE, "MaxQoS()"),
                P(0x25, BOOL, "RetainAvailable()"), P(0x27, U32, "MaxPacketSize()"), P(0x12, STR, "AssignedClientID()"),
                P(0x22, U16, "TopicAliasMax()"), P(0x1f, STR, "ReasonString()"), P(0x28, BOOL, "WildcardSubAvailable()"),
                P(0x29, BOOL, "SubIdentifiersAvailable()"), P(0x2a, BOOL, "SharedSubAvailable()"), P(0x13, U16, "ServerKeepAlive()"),
                P(0x1a, STR, "ResponseInformation()"), P(0x1c, STR, "ServerReference()"), P(0x15, STR, "AuthMethod()"),
                P(0x16, BIN, "AuthData()")],
    "Publish": [P(0x01, BOOL, "PayloadFormat()"), P(0x02, U32, "MessageExpiryInterval()"), P(0x23, U16, "TopicAlias()"),
                P(0x08, STR, "ResponseTopic()"), P(0x09, BIN, "CorrelationData()"), P(0x03, STR, "ContentType()")],
    "PubAck": [P(0x1f, STR, "ReasonString()")],
    "PubRec": [P(0x1f, STR, "ReasonString()")],
    "PubRel": [P(0x1f, STR, "ReasonString()")],
    "PubComp": [P(0x1f, STR, "ReasonString()")],
    "Subscribe": [P(0x0b, VBI, "SubscriptionID()")],
    "SubAck": [P(0x1f, STR, "ReasonString()")],
    "Unsubscribe": [],
    "UnsubAck": [P(0x1f, STR, "ReasonString()")],
    # the library's Disconnect has no accessor for these three (known finding D8): acceptance only
    "Disconnect": [P(0x11, U32, None), P(0x1f, STR, None), P(0x1c, STR, None)],
    "Auth": [P(0x15, STR, "AuthMethod()"), P(0x16, BIN, "AuthData()"), P(0x1f, STR, "ReasonString()")],
}
# will properties of CONNECT (3.1.3.2), reported through the will message
WILL = [P(0x18, U32, "WillDelayInterval()"), P(0x01, BOOL, "will.PayloadFormat()"), P(0x02, U32, "will.MessageExpiryInterval()"),
        P(0x03, STR, "will.ContentType()"), P(0x08, STR, "will.ResponseTopic()"), P(0x09, BIN, "will.CorrelationData()")]

# the will property section of CONNECT is left out: its obligations did not discharge within the time limit
WITH_WILL = False

O = "old(b.i)"
D = lambda k: "b.data[%s+%d]" % (O, k)
U16E = "int(specU16(%s, %s))" % (D(1), D(2))
U16B = "specU16(%s, %s)" % (D(1), D(2))  # compared as a 16 bit value: no integer conversion for the solver to undo
LEN = "len(b.data)"


def clause(kind, label, text):
    return "//@     %s %s:: %s   #C03" % (kind, label, text)


def entry(ident, typ, acc, guard=""):
    """latch clauses for one table entry: value, width (cursor), acceptance."""
    out = []
    g = "id == %d%s" % (ident, guard)
    ok = "b.err == nil && " + g
    x = "x%02x" % ident
    A = "self." + acc if acc else None
    if typ in (BYTE, BOOL):
        need, width = 2, "2"
        if A:
            if typ == BOOL:
                out.append(clause("latch", "val_" + x, "%s ==> %s == (%s == 1)" % (ok, A, D(1))))
            else:
                out.append(clause("latch", "val_" + x, "%s ==> uint8(%s) == %s" % (ok, A, D(1))))
        valid = " && %s <= 1" % D(1) if typ == BOOL else ""
    elif typ == U16:
        need, width, valid = 3, "3", ""
        if A:
            out.append(clause("latch", "val_" + x, "%s ==> %s == specU16(%s, %s)" % (ok, A, D(1), D(2))))
    elif typ == U32:
        need, width, valid = 5, "5", ""
        if A:
            out.append(clause("latch", "val_" + x, "%s ==> %s == specU32(%s, %s, %s, %s)" % (ok, A, D(1), D(2), D(3), D(4))))
    elif typ == VBI:
        vb = "%s, %s, %s, %s" % (D(1), D(2), D(3), D(4))
        out.append(clause("latch", "has_" + x, "%s ==> haskey(fields, id)" % g))
        out.append(clause("latch", "val_" + x, "%s ==> uint(%s) == specVbValue(%s)" % (ok, A, vb)))
        out.append(clause("latch", "cur_" + x, "%s ==> b.i == %s + 1 + specVbWidth(specVbValue(%s))" % (ok, O, vb)))
        out.append(clause("latch", "acc_" + x, "%s && specVbOK(%s - %s - 1, %s) ==> b.err == nil" % (g, LEN, O, vb)))
        return out
    elif typ in (STR, BIN):
        # a transmitted empty string leaves the field as it was (empty in a packet made by ReadPacket)
        need, width, valid = None, "3 + " + U16E, ""
        if A:
            out.append(clause("latch", "len_" + x, "%s && %s != 0 ==> len(%s) == %s" % (ok, U16B, A, U16E)))
            out.append(clause("latch", "val_" + x, "%s && %s != 0 ==> forall k in 0..%s: %s[k] == b.data[%s+3+k]" % (ok, U16B, U16E, A, O)))
            out.append(clause("latch", "nul_" + x, "%s && %s == 0 ==> len(%s) == len(old(%s))" % (ok, U16B, A, A)))
    else:
        raise ValueError(typ)
    # the identifier is in the decoder's table for this property section (acceptance needs it; for strings the
    # rest of acceptance is the contract of buffer.get, R's primitive read, proved once for every wire type)
    out.append(clause("latch", "has_" + x, "%s ==> haskey(fields, id)" % g))
    if A or typ not in (STR, BIN):
        was_empty = ""
        if typ in (STR, BIN):
            was_empty = " && (%s != 0 || len(old(%s)) == 0)" % (U16B, A)
        out.append(clause("latch", "cur_" + x, "%s%s ==> b.i == %s + %s" % (ok, was_empty, O, width)))
        if typ not in (STR, BIN):
            out.append(clause("latch", "acc_" + x, "%s && %s + %d <= %s%s ==> b.err == nil" % (g, O, need, LEN, valid)))
    return out


def generic():
    """user property and subscription identifier: allowed in (almost) every section, handled outside the tables"""
    vb = "%s, %s, %s, %s" % (D(1), D(2), D(3), D(4))
    return [
        "//@     -- a user property (0x26): identifier, two length-prefixed strings (pl1, pl2: their lengths, lets of getAny)",
        clause("latch", "up_cur", "b.err == nil && id == 38 && !haskey(fields, id) ==> b.i == %s + 5 + pl1 + pl2" % O),
        clause("latch", "up_cnt", "b.err == nil && id == 38 && !haskey(fields, id) ==> len(self.UserProperties) == len(old(self.UserProperties)) + 1"),
        clause("latch", "up_len", "b.err == nil && id == 38 && !haskey(fields, id) ==> len(self.UserProperties[len(self.UserProperties)-1][0]) == pl1 && len(self.UserProperties[len(self.UserProperties)-1][1]) == pl2"),
        clause("latch", "up_key", "b.err == nil && id == 38 && !haskey(fields, id) ==> forall k in 0..pl1: self.UserProperties[len(self.UserProperties)-1][0][k] == b.data[%s+3+k]" % O),
        clause("latch", "up_val", "b.err == nil && id == 38 && !haskey(fields, id) ==> forall k in 0..pl2: self.UserProperties[len(self.UserProperties)-1][1][k] == b.data[%s+5+pl1+k]" % O),
        "//@     -- a subscription identifier (0x0b): identifier, variable byte integer; the cursor moves by the minimal width of the value",
        clause("latch", "sid_acc", "id == 11 && !haskey(fields, id) && specVbOK(%s - %s - 1, %s) ==> b.err == nil" % (LEN, O, vb)),
        clause("latch", "sid_cur", "b.err == nil && id == 11 && !haskey(fields, id) ==> b.i == %s + 1 + specVbWidth(specVbValue(%s))" % (O, vb)),
    ]


def section():
    out = []
    for t in ["Connect", "ConnAck", "Publish", "PubAck", "PubRec", "PubRel", "PubComp", "Subscribe", "SubAck", "Unsubscribe", "UnsubAck", "Disconnect", "Auth"]:
        out.append("//@ func (*%s).UnmarshalBinary" % t)
        if t == "Connect":
            # two property sections: the CONNECT properties, then the will properties
            out.append("//@   within (*buffer).getAny@1 loop 0:")
            out += generic()
            for (i, ty, a) in PROPS[t]:
                out += entry(i, ty, a)
            if WITH_WILL:
                out.append("//@   within (*buffer).getAny@2 loop 0:")
                for (i, ty, a) in WILL:
                    out += entry(i, ty, a)
        else:
            out.append("//@   within (*buffer).getAny loop 0:")
            out += generic()
            for (i, ty, a) in PROPS[t]:
                out += entry(i, ty, a)
        out.append("")
    return "\n".join(out)


BEGIN = "// BEGIN generated by /verif/gen_c03.py (do not edit by hand)"
END = "// END generated by /verif/gen_c03.py"

if __name__ == "__main__":
    path = sys.argv[1] if len(sys.argv) > 1 else "/repo/contracts_verif.go"
    s = open(path).read()
    body = BEGIN + "\n\n" + section() + "\n" + END
    if BEGIN in s:
        s = s[:s.index(BEGIN)] + body + s[s.index(END) + len(END):]
    else:
        s = s.rstrip("\n") + "\n\n" + body + "\n"
    open(path, "w").write(s)
    print("wrote", path, "-", section().count("latch"), "latch clauses")
