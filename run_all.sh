#!/bin/bash
# run every claimed check on /repo's current tree (refreshes evidence/*.json)
cd /verif
tier=${1:-quick}
ids=$(python3 -c "import json;print(' '.join(c['property_id'] for c in json.load(open('MANIFEST.json'))['checks']))")
rc=0
for id in $ids; do
  ./check $id $tier | grep -E "^$id (quick|thorough):|^selftest:|^VIOLATION|SELFTEST-GAP"
  [ ${PIPESTATUS[0]} -ne 0 ] && rc=1
done
exit $rc
