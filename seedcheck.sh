#!/bin/bash
# seedcheck.sh <ID> [property ids to run...] : confirm a seeded change and run the checks against it
export GOFLAGS=-mod=mod GOPROXY=off GOSUMDB=off GOTOOLCHAIN=local
id=$1; shift
props=${@:-$id}
src=${SEEDSRC:-/tmp/seed}/$id
dst=/verif/seeded/${SEEDPREFIX:-}$id
mkdir -p $dst
cp $src/patch.diff $src/seed_demo_test.go $src/NOTES.md $dst/ 2>/dev/null
if [ -n "$(git -C /repo status --porcelain)" ]; then echo "/repo not clean"; exit 2; fi
log=$dst/confirm.log
: > $log
# confirmation in a fresh scratch worktree
wt=$(mktemp -d /tmp/seedwt.XXXX); rmdir $wt
git -C /repo worktree add -q --detach $wt HEAD
( cd $wt && git apply $dst/patch.diff && echo "patch applies" >> $log
  go build ./... >> $log 2>&1 && echo "builds" >> $log
  go test -vet=off -count=1 ./... > $wt.suite 2>&1; tail -3 $wt.suite >> $log
  grep -q "^FAIL" $wt.suite && echo "SUITE-FAILS-WITH-PATCH" >> $log || echo "suite passes with patch" >> $log
  cp $dst/seed_demo_test.go . && timeout 120 go test -vet=off -count=1 -run 'TestSeedDemo' . > $wt.demo 2>&1; tail -5 $wt.demo | cut -c1-300 >> $log
  grep -q "^ok" $wt.demo && echo "DEMO-PASSES-WITH-PATCH" >> $log || echo "demo fails with patch" >> $log
  git apply -R $dst/patch.diff && timeout 120 go test -vet=off -count=1 -run 'TestSeedDemo' . > $wt.demo2 2>&1; tail -2 $wt.demo2 >> $log
  grep -q "^ok" $wt.demo2 && echo "demo passes without patch" >> $log || echo "DEMO-FAILS-WITHOUT-PATCH" >> $log )
git -C /repo worktree remove --force $wt; rm -f $wt.suite $wt.demo $wt.demo2
# run the checks against the change
git -C /repo apply $dst/patch.diff || { echo "cannot apply to /repo"; exit 2; }
for p in $props; do
  ( cd /verif && MQVC_EVIDENCE_DIR=$dst timeout 900 ./check $p quick > $dst/check_$p.out 2>&1; echo "exit=$?" >> $dst/check_$p.out )
  echo "== $id vs $p: $(grep -c '^VIOLATION' $dst/check_$p.out) violations; $(tail -2 $dst/check_$p.out | tr '\n' ' ')"
done
git -C /repo checkout -- .
grep -E "SUITE-FAILS|DEMO-PASSES-WITH|DEMO-FAILS-WITHOUT|cannot" $log
