#!/usr/bin/env python3
"""seedmeta.py: write seeded/<dir>/meta.json from confirm.log and check_*.out (run after seedcheck.sh)."""
import json, os, re, sys, glob

DESC = {
 "r7-C12": ("C12", "Publish.SetQoS rewritten as one mask-and-or whose keep-mask leaves out DUP: every SetQoS clears the DUP flag", "SetDuplicate(true) followed by any SetQoS"),
 "r7-C14": ("C14", "new buffer.getBinary returns a sub-slice of the input; Connect.UnmarshalBinary uses it for the will payload", "a CONNECT with a non-empty will payload decoded with UnmarshalBinary from a caller-owned buffer that is overwritten or reused afterwards"),
 "r7-C17": ("C17", "Publish.WellFormed returns nil at once for an empty topic name with a topic alias, skipping the QoS and packet identifier rules", "empty topic, topic alias set, and QoS 3 or QoS 1/2 with packet identifier 0"),
 "r6-C01a": ("C01", "ConnAck.properties writes the Maximum QoS property only for values below 2 (framed as spec compliance)", "a CONNACK built with SetMaxQoS(2): the decoded packet reports 0"),
 "r6-C01b": ("C01", "getAny rejects a repeated property identifier (bit set of identifiers seen), exempting only user properties", "a PUBLISH with two or more subscription identifiers"),
 "r6-C01c": ("C01", "Connect.UnmarshalBinary reads the password only inside the user-name branch", "a CONNECT with a password but no user name: the decoded packet has no password"),
 "r5-C06": ("C06", "bodies of at most 64 bytes are read with io.ReadAtLeast into a 64-byte scratch array: bytes of the following frames are consumed", "a short frame followed by more bytes in the same Read"),
 "r5-C07": ("C07", "vbint.ReadFrom reads the remaining-length bytes with a single r.Read into a [1]byte and ignores the count", "a zero-length read before or inside the remaining length, or the byte delivered together with io.EOF"),
 "r5-C08": ("C08", "io.ErrUnexpectedEOF from the body read is no longer fatal: the truncated body is handed to UnmarshalBinary", "a stream that ends inside the body of a frame whose prefix still parses"),
 "r5-C15": ("C15", "the streaming decoder's size check compares the value with 268 435 455 instead of counting bytes", "four or more continuation bytes followed by small groups (80 80 80 80 00)"),
 "r5-C18": ("C18", "stars(n) refactored into mask(v []byte): whitespace-only credentials are shown as unset", "a non-empty credential consisting of white space only"),
 "r4-C02": ("C02", "SubAck.variableHeader returns 2 + 1 + proplen for the width pass (assumes a one byte property length)", "a SUBACK with 128 bytes or more of properties: remaining length one short, last reason code not written"),
 "r4-C09": ("C09", "Publish.UnmarshalBinary reads the payload with buf.err = p.payload.UnmarshalBinary(...): an earlier decode error is overwritten with nil", "a PUBLISH with a truncated / malformed property followed by at least one more byte"),
 "r3-C03a": ("C03", "PubRec.UnmarshalBinary returns early for frames shorter than 4 bytes (misreading of 3.5.2.1): the reason code of a length-3 PUBREC is not read", "a PUBREC of remaining length 3 with a non-zero reason code (50 03 00 09 97)"),
 "r3-C03b": ("C03", "UserProp.UnmarshalBinary decodes key and value into one reused scratch string; with bindata's keep-on-empty an empty value decodes as the key and the cursor overshoots", "a user property with a non-empty key and an empty value"),
 "r2-C02": ("C02", "Connect.fill writes the password only inside the user-name branch", "a CONNECT with a password but no user name"),
 "r2-C04": ("C04", "Connect.UnmarshalBinary calls p.will.SetRetain when the will-retain flag is set without checking that the will flag created a will", "a CONNECT frame with the will-retain bit but no will flag (nil dereference)"),
 "r2-C05": ("C05", "ReadRemaining reads frames >= 4096 bytes into a sync.Pool buffer and hands the whole recycled buffer to UnmarshalBinary", "a large frame followed by a smaller (>= 4096 byte) frame ending in a repeated section"),
 "r2-C09": ("C09", "getAny reads the property identifier as a variable byte integer and truncates it to a byte", "an undefined identifier >= 0x80 followed by bytes that fold to a known identifier"),
 "r2-C10": ("C10", "Disconnect.width returns 2 + variableHeader instead of the dry run of fill (assumes a one byte remaining length)", "a DISCONNECT whose variable header is 128 bytes or longer"),
 "r2-C11": ("C11", "Publish.WriteTo takes its buffer from a sync.Pool and bindata.fill skips empty values, leaving stale bytes", "a PUBLISH with an empty string written after a longer PUBLISH"),
 "r2-C12": ("C12", "Connect.SetPassword sets the password flag only if the user-name flag is already set", "SetPassword before SetUsername, or without a user name"),
 "r2-C13": ("C13", "Connect.fill caches the will property length in a scratch field of the packet", "encoding a CONNECT with a will (the encoder mutates the packet)"),
 "r2-C14": ("C14", "bindata.UnmarshalBinary reuses the receiver's backing array when it is large enough instead of allocating", "decoding twice into the same field: a value handed out earlier changes under its holder"),
 "r2-C16": ("C16", "Disconnect.WriteTo fast path writes a precomputed {0xe0, 0} for the two byte packet", "a DISCONNECT read with non-zero flag bits and an empty body, written again"),
 "r2-C17": ("C17", "Subscribe.WellFormed rewritten as an index loop that keeps only the last filter's verdict", "a SUBSCRIBE with a malformed filter followed by a well-formed one"),
 "r2-C19": ("C19", "Dump asserts an internal dumper interface without the ok check; Undefined lacks the method", "Dump of an *Undefined"),
}

def first_para(path):
    try:
        for para in open(path).read().split("\n\n"):
            p = para.strip()
            if p and not p.startswith("#"):
                return " ".join(p.split())[:400]
    except OSError:
        pass
    return ""

def main(d):
    name = os.path.basename(d.rstrip("/"))
    log = open(os.path.join(d, "confirm.log")).read() if os.path.exists(os.path.join(d, "confirm.log")) else ""
    prop, change, needs = DESC.get(name, (name[-3:], first_para(os.path.join(d, "NOTES.md")), "see NOTES.md"))
    checks, detected = {}, []
    for f in sorted(glob.glob(os.path.join(d, "check_*.out"))):
        pid = re.search(r"check_(C\d+)\.out", f).group(1)
        lines = open(f).read().splitlines()
        v = [l for l in lines if l.startswith("VIOLATION")]
        checks[pid] = {"violations": len(v), "first": v[0][:300] if v else "", "confirmed_on_real_code": any("no-failing-input-found" not in l for l in v),
                       "summary": [l for l in lines if re.match(r"C\d+ (quick|thorough):", l)]}
        if v:
            detected.append(pid)
    meta = {"seed": name, "breaks_property": prop, "change": change, "needs_to_manifest": needs,
            "author": "independent sub-agent given only the property text and a scratch worktree",
            "confirmed": {"suite_passes_with_patch": "suite passes with patch" in log, "demo_fails_with_patch": "demo fails with patch" in log,
                          "demo_passes_without_patch": "demo passes without patch" in log},
            "ran": "seedcheck.sh: scratch worktree (git apply, go test ./..., demo with and without the patch), then git -C /repo apply, ./check <ids> quick, git -C /repo checkout -- .",
            "checks": checks, "detected_by": detected}
    json.dump(meta, open(os.path.join(d, "meta.json"), "w"), indent=1)
    print(name, "detected_by", detected, meta["confirmed"])

for d in sys.argv[1:]:
    main(d)
