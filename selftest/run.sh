#!/bin/bash
# selftest/run.sh <Cnn>|all : must-fail corpus. Every listed change compiles and passes the
# repository's own tests; applied to a scratch copy of /repo's HEAD it must make the named
# property's check report a violation. A survivor is printed as SELFTEST-GAP (a hole in the
# contracts, not a property violation; the exit code is not affected).
cd /verif
want=${1:-all}
export GOFLAGS=-mod=mod GOPROXY=off GOSUMDB=off GOTOOLCHAIN=local
gaps=0; ok=0; skipped=0
while read -r file props desc; do
  [ -z "$file" ] && continue
  for pt in ${props//,/ }; do
    # an entry C<nn>:thorough is checked in the thorough tier (roots too slow for the quick limits)
    p=${pt%%:*}; tier=quick; [ "$pt" != "$p" ] && tier=${pt#*:}
    [ "$want" != all ] && [ "$want" != "$p" ] && continue
    wt=$(mktemp -d /tmp/mqvc-selftest.XXXXXX); rmdir "$wt"
    git -C /repo worktree add -q --detach "$wt" HEAD 2>/dev/null || { echo "SELFTEST-SKIP $file (cannot create scratch worktree)"; skipped=$((skipped+1)); continue; }
    if ! git -C "$wt" apply /verif/selftest/mutants/$file 2>/dev/null; then
      echo "SELFTEST-SKIP $file vs $p (does not apply to the current HEAD)"; skipped=$((skipped+1))
    else
      ev=$(mktemp -d /tmp/mqvc-selftest-ev.XXXXXX)
      out=$(MQVC_REPO="$wt" MQVC_EVIDENCE_DIR="$ev" MQVC_WORK="$ev" timeout 2400 ./bin/mqvc check $p $tier 2>&1)
      if echo "$out" | grep -q '^VIOLATION'; then
        echo "SELFTEST-OK   $file breaks $p: $(echo "$out" | grep -c '^VIOLATION') obligation(s) fail ($desc)"; ok=$((ok+1))
      else
        echo "SELFTEST-GAP  $file should break $p but the check stays green ($desc)"; gaps=$((gaps+1))
      fi
      rm -rf "$ev"
    fi
    git -C /repo worktree remove --force "$wt" 2>/dev/null; rm -rf "$wt"
  done
done < selftest/corpus.tsv
echo "selftest: $ok detected, $gaps gaps, $skipped skipped"
exit 0
